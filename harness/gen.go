package main

import (
	"math"
	"math/rand"
)

// Workload generators. All coordinates stay within [-lim, lim] (default 2^13) so
// that the native-integer instance of the specification is exact.

type genCfg struct {
	lim int64
}

func latticePath(r *rand.Rand, k int, scale, ox, oy int64, n int) Path {
	p := make(Path, 0, n)
	for i := 0; i < n; i++ {
		p = append(p, Pt{ox + int64(r.Intn(k))*scale, oy + int64(r.Intn(k))*scale})
		if r.Intn(12) == 0 && len(p) > 0 { // repeated vertex
			p = append(p, p[len(p)-1])
		}
	}
	return p
}

func generalPath(r *rand.Rand, lo, hi int64, n int) Path {
	p := make(Path, n)
	for i := range p {
		p[i] = Pt{lo + r.Int63n(hi-lo+1), lo + r.Int63n(hi-lo+1)}
	}
	return p
}

func starPath(r *rand.Rand, cx, cy int64, rad float64, n, step int) Path {
	p := make(Path, n)
	ph := r.Float64() * 2 * math.Pi
	for i := range p {
		a := ph + 2*math.Pi*float64(i*step)/float64(n)
		rr := rad * (0.6 + 0.4*r.Float64())
		p[i] = Pt{cx + int64(math.Round(rr*math.Cos(a))), cy + int64(math.Round(rr*math.Sin(a)))}
	}
	return p
}

func rectPath(x0, y0, x1, y1 int64, ccw bool) Path {
	if ccw {
		return Path{{x0, y0}, {x1, y0}, {x1, y1}, {x0, y1}}
	}
	return Path{{x0, y0}, {x0, y1}, {x1, y1}, {x1, y0}}
}

// rectilinear polygon with many shared horizontals: a staircase/comb on a coarse grid
func combPath(r *rand.Rand, ox, oy, w, h int64, teeth int) Path {
	p := Path{{ox, oy}}
	x := ox
	for t := 0; t < teeth; t++ {
		top := oy + h*int64(1+r.Intn(3))
		p = append(p, Pt{x, top}, Pt{x + w, top}, Pt{x + w, oy + h/2})
		x += w
		gap := w * int64(r.Intn(2))
		if gap > 0 {
			p = append(p, Pt{x + gap, oy + h/2})
			x += gap
		}
	}
	p = append(p, Pt{x, oy})
	if r.Intn(2) == 0 {
		rev(p)
	}
	return p
}

func rev(p Path) {
	for i, j := 0, len(p)-1; i < j; i, j = i+1, j-1 {
		p[i], p[j] = p[j], p[i]
	}
}

func regularish(r *rand.Rand, cx, cy int64, rad float64, n int) Path {
	p := make(Path, n)
	ph := r.Float64() * 2 * math.Pi
	for i := range p {
		a := ph + 2*math.Pi*float64(i)/float64(n)
		p[i] = Pt{cx + int64(math.Round(rad*math.Cos(a))), cy + int64(math.Round(rad*math.Sin(a)))}
	}
	return p
}

// nested rings: depth alternating orientation, optionally touching
func nestedRings(r *rand.Rand, cx, cy int64, rad float64, depth int) Paths {
	var out Paths
	for d := 0; d < depth; d++ {
		n := 4 + r.Intn(5)
		q := regularish(r, cx, cy, rad, n)
		if d%2 == 1 {
			rev(q)
		}
		out = append(out, q)
		rad *= 0.55 + 0.25*r.Float64()
		if rad < 6 {
			break
		}
	}
	return out
}

// genClosedSet draws a set of closed paths of one of several families.
func genClosedSet(r *rand.Rand, fam int) Paths {
	switch fam {
	case 0: // tiny lattice, 3x3 scaled by 8: touching/shared-edge configurations are frequent
		n := 1 + r.Intn(2)
		s := make(Paths, n)
		for i := range s {
			s[i] = latticePath(r, 4, 8, 0, 0, 3+r.Intn(3))
		}
		return s
	case 1: // larger lattice
		n := 1 + r.Intn(3)
		sc := []int64{4, 8, 16}[r.Intn(3)]
		s := make(Paths, n)
		for i := range s {
			s[i] = latticePath(r, 6, sc, 0, 0, 3+r.Intn(6))
		}
		return s
	case 2: // general position, unit scale
		n := 1 + r.Intn(3)
		s := make(Paths, n)
		for i := range s {
			s[i] = generalPath(r, -40, 40, 3+r.Intn(7))
		}
		return s
	case 3: // general position, large
		n := 1 + r.Intn(3)
		s := make(Paths, n)
		for i := range s {
			s[i] = generalPath(r, -4000, 4000, 3+r.Intn(9))
		}
		return s
	case 4: // stars and bow-ties
		n := 1 + r.Intn(2)
		s := make(Paths, n)
		for i := range s {
			k := 5 + 2*r.Intn(3)
			s[i] = starPath(r, int64(r.Intn(60)-30), int64(r.Intn(60)-30), 40+60*r.Float64(), k, 2+r.Intn(2))
		}
		return s
	case 5: // nested rings
		return nestedRings(r, int64(r.Intn(20)), int64(r.Intn(20)), 80+200*r.Float64(), 2+r.Intn(5))
	case 6: // rectilinear with shared horizontals
		n := 1 + r.Intn(3)
		s := make(Paths, n)
		for i := range s {
			s[i] = combPath(r, int64(r.Intn(4))*8, int64(r.Intn(4))*8, 8, 8, 1+r.Intn(4))
		}
		return s
	case 7: // axis-aligned rectangles on a coarse grid (many coincident edges)
		n := 1 + r.Intn(4)
		s := make(Paths, n)
		for i := range s {
			x0, y0 := int64(r.Intn(5))*10, int64(r.Intn(5))*10
			s[i] = rectPath(x0, y0, x0+int64(1+r.Intn(4))*10, y0+int64(1+r.Intn(4))*10, r.Intn(2) == 0)
		}
		return s
	default: // spikes and degenerate pieces mixed with a real polygon
		s := Paths{generalPath(r, -30, 30, 3+r.Intn(5))}
		b := Pt{int64(r.Intn(40) - 20), int64(r.Intn(40) - 20)}
		t := Pt{int64(r.Intn(40) - 20), int64(r.Intn(40) - 20)}
		s = append(s, Path{b, t, b})                                   // zero-area spike
		s = append(s, Path{b, t})                                      // two-point path
		s = append(s, Path{{b[0], b[1]}, {b[0] + 10, b[1]}, {b[0] + 20, b[1]}}) // all-horizontal
		return s
	}
}

const nClosedFams = 9

func clonePaths(s Paths) Paths {
	if s == nil {
		return nil
	}
	out := make(Paths, len(s))
	for i, q := range s {
		out[i] = append(Path(nil), q...)
		if q != nil && out[i] == nil {
			out[i] = Path{}
		}
	}
	return out
}

func equalPaths(a, b Paths) bool {
	if len(a) != len(b) {
		return false
	}
	for i := range a {
		if len(a[i]) != len(b[i]) {
			return false
		}
		for j := range a[i] {
			if a[i][j] != b[i][j] {
				return false
			}
		}
	}
	return true
}
