package main

import (
	"bufio"
	"encoding/json"
	"math"
	"math/rand"
	"os"
	"strings"

	clipper "github.com/bolom009/go-clipper2"
)

// Replay of TLC-generated object histories (spec/Lifecycle.tla) against the real objects.

type lifeOp struct {
	Op    string `json:"op"`
	P     int    `json:"p"`
	Ptype int    `json:"ptype"`
	Open  bool   `json:"open"`
	Via   string `json:"via"` // add: "paths" (AddPaths) or "path" (AddPath once per path; integer engine)
	Form  string `json:"form"`
	Ct    int    `json:"ct"`
	Fr    int    `json:"fr"`
}

type lifeHist struct {
	Kind string   `json:"kind"`
	Ops  []lifeOp `json:"ops"`
}

// the path pool of spec/Lifecycle.tla (Pool), 1-based there
var lifePool = []Paths{
	{{{0, 0}, {32, 0}, {32, 32}, {0, 32}}},
	{{{16, 16}, {48, 16}, {48, 48}, {16, 48}}},
	{{{8, 8}, {40, 40}, {40, 8}, {8, 40}}},
	{{{-8, 24}, {24, 24}, {24, -8}, {56, 40}}},
	{{{8, 24}, {40, 24}, {40, 48}, {8, 48}}, {{32, 32}, {48, 32}, {48, 56}, {32, 56}}, {{16, 16}, {24, 16}, {24, 40}, {16, 40}}},
	{{{24, 0}, {56, 0}, {56, 32}, {24, 32}}},
}

type TreeNode struct {
	Parent int  `json:"parent"` // 0 = root, else 1-based index into the node list
	Poly   Path `json:"poly"`
}

type FreshRes struct {
	Sol     Paths      `json:"sol"`
	SolOpen Paths      `json:"solOpen"`
	Tree    []TreeNode `json:"tree"`
}

type EngEv struct {
	Ev    string   `json:"ev"` // Reset | EngNew | EngAdd | EngExec
	Chk   []string `json:"chk"`
	Id    int      `json:"id"`
	Kind  string   `json:"kind"`
	Prec  int      `json:"prec"`
	P     int      `json:"p"`
	Paths Paths    `json:"paths"`
	Ptype int      `json:"ptype"`
	Open  bool     `json:"open"`
	Form  string   `json:"form"`
	Ct    int      `json:"ct"`
	Fr    int      `json:"fr"`

	Out       string     `json:"out"`
	Ok        bool       `json:"ok"`
	Sol       Paths      `json:"sol"`
	SolOpen   Paths      `json:"solOpen"`
	Tree      []TreeNode `json:"tree"`
	Fresh     FreshRes   `json:"fresh"`
	FreshPerm Paths      `json:"freshPerm"`
	ArgsSame  bool       `json:"argsSame"`
	Probes    []Pt       `json:"probes"`
	Nontriv   bool       `json:"nontriv"`
	Hist      string     `json:"hist"`
}

// engine wrapper over the two kinds; results always in integer (scaled) units
type eng struct {
	kind string
	c64  interface {
		AddPaths(clipper.Paths64, clipper.PathType, bool)
		AddPath(clipper.Path64, clipper.PathType, bool)
		Execute(clipper.ClipType, clipper.FillRule, *clipper.Paths64) bool
		ExecuteOC(clipper.ClipType, clipper.FillRule, *clipper.Paths64, *clipper.Paths64) bool
		ExecutePolyTree64(clipper.ClipType, clipper.FillRule, *clipper.PolyTree64, *clipper.PathsD) bool
	}
	cD interface {
		AddPaths(clipper.PathsD, clipper.PathType, bool)
		Execute(clipper.ClipType, clipper.FillRule, *clipper.PathsD) bool
		ExecuteOC(clipper.ClipType, clipper.FillRule, *clipper.PathsD, *clipper.PathsD) bool
		ExecutePolyTreeD(clipper.ClipType, clipper.FillRule, *clipper.PolyTreeD, *clipper.PathsD) bool
	}
	scale float64
}

func newEng(kind string, prec int) *eng {
	if kind == "D" {
		return &eng{kind: kind, cD: clipper.NewClipperD(prec), scale: math.Pow(10, float64(prec))}
	}
	return &eng{kind: kind, c64: clipper.NewClipper64(), scale: 1}
}

func toPathsD(s Paths) clipper.PathsD {
	out := newPathsD(len(s))
	for i, q := range s {
		out[i] = newPathD(len(q))
		for j, p := range q {
			out[i][j] = clipper.PointD{X: float64(p[0]), Y: float64(p[1])}
		}
		regPathD(out[i])
	}
	return regPathsD(out)
}

func fromPathsDScaled(s clipper.PathsD, k float64) Paths {
	out := make(Paths, len(s))
	for i, q := range s {
		out[i] = make(Path, len(q))
		for j, p := range q {
			out[i][j] = Pt{int64(math.Round(p.X * k)), int64(math.Round(p.Y * k))}
		}
	}
	return out
}

func (g *eng) add(paths Paths, ptype int, open bool, via string) {
	switch {
	case g.kind == "D":
		g.cD.AddPaths(toPathsD(paths), clipper.PathType(ptype), open)
	case via == "path":
		for _, q := range paths {
			g.c64.AddPath(to64(q), clipper.PathType(ptype), open)
		}
	default:
		g.c64.AddPaths(toPaths64(paths), clipper.PathType(ptype), open)
	}
}

func flattenTree(root *clipper.PolyPathBase, k float64, isD bool) []TreeNode {
	var out []TreeNode
	var rec func(n *clipper.PolyPathBase, parent int)
	rec = func(n *clipper.PolyPathBase, parent int) {
		for _, ch := range n.GetChildren() {
			poly := from64(ch.Polygon())
			out = append(out, TreeNode{Parent: parent, Poly: poly})
			rec(ch, len(out))
		}
	}
	rec(root, 0)
	if out == nil {
		out = []TreeNode{}
	}
	return out
}

// exec runs one execution form. prefill: the solution arguments already hold data (a large square and a
// line), which the call must replace; the reference engines are run with empty arguments, so anything
// that survives shows both as a sequence difference and as a wrong region
func (g *eng) exec(form string, ct, fr int, prefill bool) (sol, solOpen Paths, tree []TreeNode, ok bool) {
	c, f := clipper.ClipType(ct), clipper.FillRule(fr)
	tree = []TreeNode{}
	junk64 := func() clipper.Paths64 {
		if !prefill {
			return clipper.Paths64{}
		}
		return clipper.Paths64{{{X: -300, Y: -300}, {X: 300, Y: -300}, {X: 300, Y: 300}, {X: -300, Y: 300}}, {{X: 7, Y: 7}, {X: 9, Y: 9}}}
	}
	junkD := func() clipper.PathsD {
		if !prefill {
			return clipper.PathsD{}
		}
		return clipper.PathsD{{{X: -300, Y: -300}, {X: 300, Y: -300}, {X: 300, Y: 300}, {X: -300, Y: 300}}, {{X: 7, Y: 7}, {X: 9, Y: 9}}}
	}
	junkTree := func(t *clipper.PolyPathBase) {
		if prefill {
			ch := t.AddChild(clipper.Path64{{X: -300, Y: -300}, {X: 300, Y: -300}, {X: 300, Y: 300}, {X: -300, Y: 300}})
			ch.AddChild(clipper.Path64{{X: 1, Y: 1}, {X: 2, Y: 3}, {X: 3, Y: 1}})
		}
	}
	if g.kind == "D" {
		switch form {
		case "closed":
			s := junkD()
			ok = g.cD.Execute(c, f, &s)
			sol = fromPathsDScaled(s, g.scale)
		case "oc":
			s, o := junkD(), junkD()
			ok = g.cD.ExecuteOC(c, f, &s, &o)
			sol, solOpen = fromPathsDScaled(s, g.scale), fromPathsDScaled(o, g.scale)
		default:
			t := clipper.NewPolyTreeD()
			junkTree(t.PolyPathBase)
			o := junkD()
			ok = g.cD.ExecutePolyTreeD(c, f, t, &o)
			tree = flattenTree(t.PolyPathBase, 1, true)
			solOpen = fromPathsDScaled(o, g.scale)
		}
	} else {
		switch form {
		case "closed":
			s := junk64()
			ok = g.c64.Execute(c, f, &s)
			sol = fromPaths64(s)
		case "oc":
			s, o := junk64(), junk64()
			ok = g.c64.ExecuteOC(c, f, &s, &o)
			sol, solOpen = fromPaths64(s), fromPaths64(o)
		default:
			t := clipper.NewPolyTree64()
			junkTree(t.PolyPathBase)
			o := junkD()
			ok = g.c64.ExecutePolyTree64(c, f, t, &o)
			tree = flattenTree(t.PolyPathBase, 1, false)
			solOpen = fromPathsDScaled(o, 1)
		}
	}
	return nz(sol), nz(solOpen), tree, ok
}

func scalePaths(s Paths, k int64) Paths {
	out := clonePaths(s)
	for _, q := range out {
		for i := range q {
			q[i][0] *= k
			q[i][1] *= k
		}
	}
	return out
}

func replayLife(r *rand.Rand, w *writer, h lifeHist, histStr string) {
	w.emit(&EngEv{Ev: "Reset", Chk: []string{}, Hist: histStr})
	if h.Kind == "Off" {
		replayOffsetLife(r, w, h)
		return
	}
	prec := 2
	g := newEng(h.Kind, prec)
	k := int64(1)
	if h.Kind == "D" {
		k = 100
	}
	w.emit(&EngEv{Ev: "EngNew", Chk: []string{}, Id: 1, Kind: h.Kind, Prec: prec})
	type addRec struct {
		paths Paths
		ptype int
		open  bool
		via   string
	}
	var adds []addRec
	nexec := 0
	for _, op := range h.Ops {
		if op.Op == "add" {
			paths := clonePaths(lifePool[op.P-1])
			before := clonePaths(paths)
			out := safeCall(func() { g.add(paths, op.Ptype, op.Open, op.Via) })
			adds = append(adds, addRec{before, op.Ptype, op.Open, op.Via})
			w.emit(&EngEv{Ev: "EngAdd", Chk: []string{}, Id: 1, P: op.P, Paths: before, Ptype: op.Ptype, Open: op.Open,
				Out: out, Ok: true, ArgsSame: equalPaths(before, paths) && argsUnchanged()})
			continue
		}
		e := &EngEv{Ev: "EngExec", Chk: []string{"C12"}, Id: 1, Form: op.Form, Ct: op.Ct, Fr: op.Fr}
		e.Out = safeCall(func() { e.Sol, e.SolOpen, e.Tree, e.Ok = g.exec(op.Form, op.Ct, op.Fr, true) })
		nexec++
		// fresh engine, same add sequence, no earlier executions
		f := newEng(h.Kind, prec)
		var subj, clip, open Paths
		for _, a := range adds {
			f.add(clonePaths(a.paths), a.ptype, a.open, a.via)
			switch {
			case a.open && a.ptype == 0:
				open = append(open, a.paths...)
			case !a.open && a.ptype == 0:
				subj = append(subj, a.paths...)
			case !a.open:
				clip = append(clip, a.paths...)
			}
		}
		safeCall(func() { e.Fresh.Sol, e.Fresh.SolOpen, e.Fresh.Tree, _ = f.exec(op.Form, op.Ct, op.Fr, false) })
		// fresh engine, paths merged into one call per kind, reversed path order
		p := newEng(h.Kind, prec)
		rv := func(s Paths) Paths {
			o := clonePaths(s)
			for i, j := 0, len(o)-1; i < j; i, j = i+1, j-1 {
				o[i], o[j] = o[j], o[i]
			}
			return o
		}
		if len(clip) > 0 {
			p.add(rv(clip), 1, false, "paths")
		}
		if len(open) > 0 {
			p.add(rv(open), 0, true, "paths")
		}
		if len(subj) > 0 {
			p.add(rv(subj), 0, false, "paths")
		}
		safeCall(func() {
			s, _, t, _ := p.exec(op.Form, op.Ct, op.Fr, false)
			if op.Form == "tree" {
				s = Paths{}
				for _, n := range t {
					s = append(s, n.Poly)
				}
			}
			e.FreshPerm = nz(s)
		})
		e.Sol, e.SolOpen, e.FreshPerm = nz(e.Sol), nz(e.SolOpen), nz(e.FreshPerm)
		e.Fresh.Sol, e.Fresh.SolOpen = nz(e.Fresh.Sol), nz(e.Fresh.SolOpen)
		if e.Tree == nil {
			e.Tree = []TreeNode{}
		}
		if e.Fresh.Tree == nil {
			e.Fresh.Tree = []TreeNode{}
		}
		ss, cc := scalePaths(subj, k), scalePaths(clip, k)
		closedSol := e.Sol
		if op.Form == "tree" {
			closedSol = Paths{}
			for _, n := range e.Tree {
				closedSol = append(closedSol, n.Poly)
			}
		}
		farIn := func(q Pt) bool { return farClosed(q, ss, 8) && farClosed(q, cc, 8) }
		bad := func(q Pt) bool {
			return farIn(q) && (wnPaths(q, closedSol) != 0) != expected(op.Ct, op.Fr, ss, cc, q)
		}
		cands := candidatePoints(r, []Paths{ss, cc}, 5*k)
		sel := selectProbes(r, cands, bad, farIn, 8, 24)
		e.Probes = sel.Probes
		e.Nontriv = nexec >= 2
		e.ArgsSame = argsUnchanged()
		w.emit(e)
	}
}

// ---- ClipperOffset histories

type OffEv struct {
	Ev      string   `json:"ev"` // OffNew | OffAdd | OffExec
	Chk     []string `json:"chk"`
	Id      int      `json:"id"`
	Miter4  int      `json:"miter4"`
	Arc4    int      `json:"arc4"`
	Pc      bool     `json:"pc"`
	Rev     bool     `json:"rev"`
	Paths   Paths    `json:"paths"`
	Jt      int      `json:"jt"`
	Et      int      `json:"et"`
	Delta4  int      `json:"delta4"`
	Ngroups int      `json:"ngroups"`

	Out      string   `json:"out"`
	Ok       bool     `json:"ok"`
	Sol      Paths    `json:"sol"`
	Fresh    FreshRes `json:"fresh"`
	ArgsSame bool     `json:"argsSame"`
	Nontriv  bool     `json:"nontriv"`
}

func replayOffsetLife(r *rand.Rand, w *writer, h lifeHist) {
	co := clipper.NewClipperOffset(2, 0.25, false, false)
	w.emit(&OffEv{Ev: "OffNew", Chk: []string{}, Id: 1, Miter4: 8, Arc4: 1})
	type addRec struct {
		paths  Paths
		jt, et int
	}
	var adds []addRec
	nexec := 0
	for _, op := range h.Ops {
		if op.Op == "add" {
			paths := clonePaths(lifePool[op.P-1])
			jt, et := []int{3, 2, 3, 0, 1, 3}[op.P-1], 0 // JtOf of spec/Lifecycle.tla
			if op.Open {
				et = 2
			}
			p64 := toPaths64(paths)
			out := safeCall(func() { co.AddPaths(p64, clipper.JoinType(jt), clipper.EndType(et)) })
			adds = append(adds, addRec{paths, jt, et})
			w.emit(&OffEv{Ev: "OffAdd", Chk: []string{}, Id: 1, Paths: paths, Jt: jt, Et: et, Out: out, Ok: true,
				ArgsSame: equalPaths(paths, fromPaths64(p64))})
			continue
		}
		// deltas per execution form: the same |delta| occurs with both signs and repeatedly
		delta := 3.5
		switch {
		case op.Form == "closed" && op.Ct == 4:
			delta = -3.5
		case op.Form == "oc":
			delta = -3.5
		case op.Form == "tree" && op.Ct == 4:
			delta = 6
		case op.Form == "tree":
			delta = -1.5
		}
		e := &OffEv{Ev: "OffExec", Chk: []string{"C12"}, Id: 1, Delta4: int(delta * 4), Ngroups: len(adds), Ok: true}
		sol := clipper.Paths64{{{X: 7, Y: 7}, {X: 9, Y: 9}}}
		e.Out = safeCall(func() { co.Execute64(delta, &sol) })
		e.Sol = nz(fromPaths64(sol))
		nexec++
		f := clipper.NewClipperOffset(2, 0.25, false, false)
		for _, a := range adds {
			f.AddPaths(toPaths64(a.paths), clipper.JoinType(a.jt), clipper.EndType(a.et))
		}
		fs := clipper.Paths64{}
		safeCall(func() { f.Execute64(delta, &fs) })
		e.Fresh = FreshRes{Sol: nz(fromPaths64(fs)), SolOpen: Paths{}, Tree: []TreeNode{}}
		e.Nontriv = nexec >= 2
		w.emit(e)
	}
}

// replayLifeFile: input lines are TLC output lines containing <<"HIST", "<json>">>
func replayLifeFile(r *rand.Rand, in string, w *writer) int {
	f, err := os.Open(in)
	if err != nil {
		fatal(err)
	}
	defer f.Close()
	sc := bufio.NewScanner(f)
	sc.Buffer(make([]byte, 1<<20), 1<<24)
	n := 0
	for sc.Scan() {
		ln := sc.Text()
		i := strings.Index(ln, `<<"HIST", `)
		if i < 0 {
			continue
		}
		q := strings.TrimSuffix(strings.TrimSpace(ln[i+len(`<<"HIST", `):]), ">>")
		var js string
		if err := json.Unmarshal([]byte(q), &js); err != nil {
			fatal("bad HIST line", err, ln)
		}
		var h lifeHist
		if err := json.Unmarshal([]byte(js), &h); err != nil {
			fatal("bad history", err, js)
		}
		replayLife(r, w, h, js)
		n++
	}
	return n
}
