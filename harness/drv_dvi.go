package main

import (
	"math"
	"math/big"
	"math/rand"

	clipper "github.com/bolom009/go-clipper2"
)

// DviEv: a floating-point entry point against its 64-bit counterpart on quantised input (C07).
// Input coordinates are decimals n / 10^d (n as BigJ); Q are the harness's own quantised inputs
// (checked by the spec against Quantise); R64 is the 64-bit result on Q; RD9 is the D result with
// every coordinate multiplied by 10^(p+9) and rounded (an exact big-float computation).
// XF: a float64 coordinate logged exactly as m * 2^e
type XF struct {
	M BigJ `json:"m"`
	E int  `json:"e"`
}
type XPt [2]XF
type XPaths [][]XPt

func exactF(v float64) XF {
	if v == 0 {
		return XF{M: bigJ64(0), E: 0}
	}
	bf := new(big.Float).SetFloat64(v)
	mant := new(big.Float)
	exp := bf.MantExp(mant) // v = mant * 2^exp, 0.5 <= |mant| < 1
	mant.SetMantExp(mant, 53)
	i, _ := mant.Int(nil)
	return XF{M: bigJ(i), E: exp - 53}
}

func exactPaths(s clipper.PathsD) XPaths {
	out := make(XPaths, len(s))
	for i, q := range s {
		out[i] = make([]XPt, len(q))
		for j, p := range q {
			out[i][j] = XPt{exactF(p.X), exactF(p.Y)}
		}
	}
	return out
}

type DviEv struct {
	Ev    string   `json:"ev"` // "DvsI"
	Chk   []string `json:"chk"`
	Api   string   `json:"api"`
	P     int      `json:"p"`
	D     int      `json:"d"`
	A     BPaths   `json:"a"`  // first operand (subject / paths / pattern), decimals n (how the floats were made)
	B     BPaths   `json:"b"`  // second operand (clip / path / rectangle as 2 points)
	XA    XPaths   `json:"xa"` // the float64 operands actually passed, exactly (m * 2^e)
	XB    XPaths   `json:"xb"`
	QA    BPaths   `json:"qa"` // the library's quantisation of the operands (ScalePathsDToPaths64)
	QB    BPaths   `json:"qb"`
	Ct    int      `json:"ct"`
	Fr    int      `json:"fr"`
	Jt    int      `json:"jt"`
	Et    int      `json:"et"`
	Flag  bool     `json:"flag"`  // closed / isOpen
	Delta int64    `json:"delta"` // delta in hundredths (offset)

	Out      string `json:"out"`
	Ok       bool   `json:"ok"`
	R64      BPaths `json:"r64"`
	RD9      BPaths `json:"rd9"`
	T64      []int  `json:"t64"` // tree parents (64-bit) when the api returns a tree
	TD       []int  `json:"td"`
	ArgsSame bool   `json:"argsSame"` // neither the PathsD operands nor the integer operands of the reference run were modified
	Nontriv  bool   `json:"nontriv"`
}

var pow10 = func() []*big.Int {
	out := make([]*big.Int, 40)
	out[0] = big.NewInt(1)
	for i := 1; i < len(out); i++ {
		out[i] = new(big.Int).Mul(out[i-1], big.NewInt(10))
	}
	return out
}()

// quantise n / 10^d at precision p: nearest integer to n * 10^(p-d), ties to even
func quantise(n int64, d, p int) *big.Int {
	s := p - d
	v := big.NewInt(n)
	if s >= 0 {
		return v.Mul(v, pow10[s])
	}
	den := pow10[-s]
	q, r := new(big.Int).QuoRem(v, den, new(big.Int)) // truncated
	r2 := new(big.Int).Mul(new(big.Int).Abs(r), big.NewInt(2))
	c := r2.Cmp(den)
	if c > 0 || (c == 0 && q.Bit(0) == 1) {
		if v.Sign() < 0 {
			q.Sub(q, big.NewInt(1))
		} else {
			q.Add(q, big.NewInt(1))
		}
	}
	return q
}

type decPath [][2]int64 // numerators

func decToD(p decPath, d int) clipper.PathD {
	out := newPathD(len(p))
	den := math.Pow(10, float64(d))
	for i, q := range p {
		out[i] = clipper.PointD{X: float64(q[0]) / den, Y: float64(q[1]) / den}
	}
	return regPathD(out)
}

func decsToD(s []decPath, d int) clipper.PathsD {
	out := newPathsD(len(s))
	for i, q := range s {
		out[i] = decToD(q, d)
	}
	return regPathsD(out)
}

func decQuant(p decPath, d, prec int) (clipper.Path64, BPath) {
	out := make(clipper.Path64, len(p))
	bj := make(BPath, len(p))
	for i, q := range p {
		x, y := quantise(q[0], d, prec), quantise(q[1], d, prec)
		out[i] = clipper.Point64{X: x.Int64(), Y: y.Int64()}
		bj[i] = BPt{bigJ(x), bigJ(y)}
	}
	return out, bj
}

func decsQuant(s []decPath, d, prec int) (clipper.Paths64, BPaths) {
	out := make(clipper.Paths64, len(s))
	bj := make(BPaths, len(s))
	for i, q := range s {
		out[i], bj[i] = decQuant(q, d, prec)
	}
	return out, bj
}

func decsB(s []decPath) BPaths {
	out := make(BPaths, len(s))
	for i, q := range s {
		out[i] = make(BPath, len(q))
		for j, p := range q {
			out[i][j] = BPt{bigJ64(p[0]), bigJ64(p[1])}
		}
	}
	return out
}

func paths64B(s clipper.Paths64) BPaths {
	out := make(BPaths, len(s))
	for i, q := range s {
		out[i] = make(BPath, len(q))
		for j, p := range q {
			out[i][j] = BPt{bigJ64(p.X), bigJ64(p.Y)}
		}
	}
	return out
}

// pathsD9: every coordinate times 10^(p+9), rounded to the nearest integer, exactly
func pathsD9(s clipper.PathsD, p int) BPaths {
	out := make(BPaths, len(s))
	sc := new(big.Float).SetPrec(400)
	if p+9 >= 0 {
		sc.SetInt(pow10[p+9])
	} else {
		sc.Quo(big.NewFloat(1).SetPrec(400), new(big.Float).SetPrec(400).SetInt(pow10[-(p+9)]))
	}
	conv := func(v float64) BigJ {
		f := new(big.Float).SetPrec(400).SetFloat64(v)
		f.Mul(f, sc)
		half := big.NewFloat(0.5)
		if f.Sign() < 0 {
			f.Sub(f, half)
		} else {
			f.Add(f, half)
		}
		i, _ := f.Int(nil) // truncation after adding +-0.5 = rounding to nearest
		return bigJ(i)
	}
	for i, q := range s {
		out[i] = make(BPath, len(q))
		for j, pt := range q {
			out[i][j] = BPt{conv(pt.X), conv(pt.Y)}
		}
	}
	return out
}

func treeParents(root *clipper.PolyPathBase) ([]int, clipper.Paths64) {
	var par []int
	var polys clipper.Paths64
	var rec func(n *clipper.PolyPathBase, parent int)
	rec = func(n *clipper.PolyPathBase, parent int) {
		for _, ch := range n.GetChildren() {
			par = append(par, parent)
			polys = append(polys, ch.Polygon())
			rec(ch, len(par))
		}
	}
	rec(root, 0)
	if par == nil {
		par = []int{}
	}
	return par, polys
}

var dviApis = []string{"BooleanOpPathsD", "BooleanOpPolyTreeD", "EngineD", "InflatePathsD", "MinkowskiSumD", "MinkowskiDiffD",
	"RectClipPathsD", "RectClipLinesPathsD", "TrimCollinearD", "EngineDTreeOpen", "WrapperD"}

type dviIn struct {
	a, b []decPath
}

func execDvi(e *DviEv, in dviIn) {
	p, d := e.P, e.D
	e.A, e.B = decsB(in.a), decsB(in.b)
	aD, bD := decsToD(in.a, d), decsToD(in.b, d)
	e.XA, e.XB = exactPaths(aD), exactPaths(bD)
	e.Ok = true
	e.R64, e.RD9, e.T64, e.TD, e.QA, e.QB = BPaths{}, BPaths{}, []int{}, []int{}, BPaths{}, BPaths{}
	inRange := p >= -8 && p <= 8
	var a64, b64 clipper.Paths64
	scale := math.Pow(10, float64(p))
	if inRange {
		// the library's own quantisation (checked by the specification against Quantise); the 64-bit
		// reference run below uses exactly these integers
		a64, b64 = clipper.ScalePathsDToPaths64(aD, scale), clipper.ScalePathsDToPaths64(bD, scale)
		e.QA, e.QB = paths64B(a64), paths64B(b64)
		for _, q := range a64 {
			regPath64(q)
		}
		for _, q := range b64 {
			regPath64(q)
		}
	}
	ct, fr := clipper.ClipType(e.Ct), clipper.FillRule(e.Fr)
	delta := float64(e.Delta) / 100
	first := func(s clipper.PathsD) clipper.PathD {
		if len(s) == 0 {
			return clipper.PathD{}
		}
		return s[0]
	}
	first64 := func(s clipper.Paths64) clipper.Path64 {
		if len(s) == 0 {
			return clipper.Path64{}
		}
		return s[0]
	}
	var rD clipper.PathsD
	var r64 clipper.Paths64
	e.Out = safeCall(func() {
		switch e.Api {
		case "BooleanOpPathsD":
			rD = clipper.BooleanOpPathsD(ct, aD, bD, fr, p)
			r64 = clipper.BooleanOpPaths64(ct, a64, b64, fr)
		case "WrapperD": // the one-call wrappers per clip type (UnionPathsD when the second operand is empty)
			switch e.Ct {
			case 1:
				rD = clipper.IntersectWithClipPathsD(aD, bD, fr, p)
			case 2:
				if len(bD) == 0 {
					rD = clipper.UnionPathsD(aD, fr, p)
				} else {
					rD = clipper.UnionWithClipPathsD(aD, bD, fr, p)
				}
			case 3:
				rD = clipper.DifferenceWithClipPathsD(aD, bD, fr, p)
			default:
				rD = clipper.XorWithClipPathsD(aD, bD, fr, p)
			}
			r64 = clipper.BooleanOpPaths64(ct, a64, b64, fr)
		case "EngineD":
			c := clipper.NewClipperD(p)
			c.AddPaths(aD, clipper.Subject, false)
			c.AddPaths(bD, clipper.Clip, false)
			e.Ok = c.Execute(ct, fr, &rD)
			c6 := clipper.NewClipper64()
			c6.AddPaths(a64, clipper.Subject, false)
			c6.AddPaths(b64, clipper.Clip, false)
			c6.Execute(ct, fr, &r64)
		case "EngineDTreeOpen": // the first operand as OPEN subject lines, the second as clip; the open solution of the tree form
			c := clipper.NewClipperD(p)
			c.AddPaths(aD, clipper.Subject, true)
			c.AddPaths(bD, clipper.Clip, false)
			tD := clipper.NewPolyTreeD()
			e.Ok = c.ExecutePolyTreeD(ct, fr, tD, &rD)
			c6 := clipper.NewClipper64()
			c6.AddPaths(a64, clipper.Subject, true)
			c6.AddPaths(b64, clipper.Clip, false)
			t6 := clipper.NewPolyTree64()
			var o6 clipper.PathsD
			c6.ExecutePolyTree64(ct, fr, t6, &o6)
			r64 = clipper.PathsDToPaths64(o6)
		case "BooleanOpPolyTreeD":
			tD := clipper.BooleanOpPolyTreeD(ct, aD, bD, fr, p)
			t6 := clipper.BooleanOpPolyTree64(ct, a64, b64, fr)
			var pd, p6 clipper.Paths64
			e.TD, pd = treeParents(tD.PolyPathBase)
			e.T64, p6 = treeParents(t6.PolyPathBase)
			r64 = p6
			// tree polygons are integer paths already: compare them as such (scaled by 10^9 for the common clause)
			rD = clipper.ScalePaths64ToPathsD(pd, 1/scale)
		case "InflatePathsD":
			rD = clipper.InflatePathsD(aD, delta, clipper.JoinType(e.Jt), clipper.EndType(e.Et), clipper.WithPrecision(p), clipper.WithArcTolerance(0.25))
			r64 = clipper.InflatePaths64(a64, delta*scale, clipper.JoinType(e.Jt), clipper.EndType(e.Et), clipper.WithArcTolerance(0.25*scale))
		case "MinkowskiSumD":
			rD = clipper.MinkowskiSumD(first(aD), first(bD), e.Flag, p)
			r64 = clipper.MinkowskiSum64(first64(a64), first64(b64), e.Flag)
		case "MinkowskiDiffD":
			rD = clipper.MinkowskiDiffD(first(aD), first(bD), e.Flag, p)
			r64 = clipper.MinkowskiDiff64(first64(a64), first64(b64), e.Flag)
		case "RectClipPathsD", "RectClipLinesPathsD":
			rb := first(bD)
			rc := clipper.NewRectD(rb[0].X, rb[0].Y, rb[1].X, rb[1].Y)
			var rc64 clipper.Rect64
			if inRange {
				q := first64(b64)
				rc64 = clipper.NewRect64(q[0].X, q[0].Y, q[1].X, q[1].Y)
			}
			if e.Api == "RectClipPathsD" {
				rD = clipper.RectClipPathsD(rc, aD, p)
				r64 = clipper.RectClipPaths64(rc64, a64)
			} else {
				rD = clipper.RectClipLinesPathsD(rc, aD, p)
				r64 = clipper.RectClipLinesPaths64(rc64, a64)
			}
		case "TrimCollinearD":
			rD = clipper.PathsD{clipper.TrimCollinearD(first(aD), p, e.Flag)}
			r64 = clipper.Paths64{clipper.TrimCollinear64(first64(a64), e.Flag)}
		}
	})
	e.ArgsSame = argsUnchanged()
	if e.Out == "ok" {
		e.R64 = paths64B(r64)
		e.RD9 = pathsD9(rD, p)
	}
	e.Nontriv = len(r64) > 0
}

func decPoly(r *rand.Rand, lim int64, n int) decPath {
	p := make(decPath, n)
	for i := range p {
		p[i] = [2]int64{r.Int63n(2*lim+1) - lim, r.Int63n(2*lim+1) - lim}
	}
	return p
}

func driveDvi(r *rand.Rand, w *writer, n int) {
	for i := 0; i < n; i++ {
		e := &DviEv{Ev: "DvsI", Chk: chkFor("C07"), Api: dviApis[r.Intn(len(dviApis))], Ct: 1 + r.Intn(4), Fr: r.Intn(4),
			Jt: r.Intn(4), Et: r.Intn(5), Flag: r.Intn(2) == 0}
		if e.Api == "EngineDTreeOpen" {
			e.Ct = 1 + r.Intn(3)
		}
		e.P = r.Intn(17) - 8
		if r.Intn(12) == 0 {
			e.P = []int{-9, 9, 12, -20}[r.Intn(4)]
		}
		e.D = r.Intn(4)
		// magnitudes: the scaled coordinates n * 10^(p-d) stay below ~2^30
		digits := 9 - (e.P - e.D) // decimal digits allowed for n
		if digits > 11 {
			digits = 11
		}
		if digits < 1 {
			digits = 1
		}
		lim := int64(1)
		for k := 0; k < digits; k++ {
			lim *= 10
		}
		if r.Intn(2) == 0 && lim > 1000 { // smaller shapes: more structure after quantisation
			lim = lim / int64(1+r.Intn(1000))
			if lim < 10 {
				lim = 10
			}
		}
		var in dviIn
		np := 1 + r.Intn(2)
		for k := 0; k < np; k++ {
			in.a = append(in.a, decPoly(r, lim, 3+r.Intn(5)))
		}
		// a third of the inputs are structured AFTER quantisation: collinear runs, spikes whose feet quantise
		// together, duplicates, shared edges - decimals n / 10^d that round to a structured integer path at
		// precision p (sub-grid jitter of at most 0.4 grid units, so never a tie)
		structured := r.Intn(3) == 0 || (e.Api == "TrimCollinearD" && r.Intn(2) == 0)
		if structured {
			e.P = r.Intn(4)
			k := r.Intn(3)
			e.D = e.P + k
			pow := int64(1)
			for j := 0; j < k; j++ {
				pow *= 10
			}
			jit := func() int64 {
				if k == 0 {
					return 0
				}
				return r.Int63n(8*pow/10+1) - 4*pow/10
			}
			mk := func(q Path) decPath {
				out := make(decPath, len(q))
				for j, v := range q {
					out[j] = [2]int64{v[0]*pow + jit(), v[1]*pow + jit()}
				}
				return out
			}
			var qs Paths
			sel := r.Intn(4)
			if e.Api == "TrimCollinearD" {
				sel = r.Intn(2)
			}
			switch sel {
			case 0:
				qs = Paths{trimPath(r)}
			case 1:
				qs = Paths{antennaPath(r)}
			case 2:
				qs = genClosedSet(r, 7)
			default:
				qs = genClosedSet(r, r.Intn(3))
			}
			if len(qs) > 2 {
				qs = qs[:2]
			}
			in.a = nil
			for _, q := range qs {
				if len(q) > 0 {
					in.a = append(in.a, mk(q))
				}
			}
			if len(in.a) == 0 {
				in.a = []decPath{mk(Path{{0, 0}, {10, 0}, {10, 10}})}
			}
			lim = 400 * pow
		}
		switch e.Api {
		case "RectClipPathsD", "RectClipLinesPathsD":
			x0, x1 := r.Int63n(2*lim+1)-lim, r.Int63n(2*lim+1)-lim
			y0, y1 := r.Int63n(2*lim+1)-lim, r.Int63n(2*lim+1)-lim
			if x0 > x1 {
				x0, x1 = x1, x0
			}
			if y0 > y1 {
				y0, y1 = y1, y0
			}
			in.b = []decPath{{{x0, y0}, {x1, y1}}}
		case "MinkowskiSumD", "MinkowskiDiffD":
			in.a = []decPath{decPoly(r, max64(lim/8, 3), 3+r.Intn(3))}
			in.b = []decPath{decPoly(r, lim, 1+r.Intn(4))}
		case "InflatePathsD":
			e.Delta = int64(r.Intn(4000)) - 1000
			in.b = []decPath{}
		case "TrimCollinearD":
			in.a = in.a[:1]
			in.b = []decPath{}
		case "WrapperD":
			in.b = []decPath{decPoly(r, lim, 3+r.Intn(5))}
			if e.Ct == 2 && r.Intn(2) == 0 {
				in.b = []decPath{} // UnionPathsD
			}
		default:
			in.b = []decPath{decPoly(r, lim, 3+r.Intn(5))}
		}
		execDvi(e, in)
		w.emit(e)
	}
}

func bigJToInt(b BigJ) int64 {
	v := new(big.Int)
	for i := len(b.M) - 1; i >= 0; i-- {
		v.Mul(v, big.NewInt(10000))
		v.Add(v, big.NewInt(b.M[i]))
	}
	if b.S < 0 {
		v.Neg(v)
	}
	return v.Int64()
}

func bToDec(s BPaths) []decPath {
	out := make([]decPath, len(s))
	for i, q := range s {
		out[i] = make(decPath, len(q))
		for j, p := range q {
			out[i][j] = [2]int64{bigJToInt(p[0]), bigJToInt(p[1])}
		}
	}
	return out
}
