package main

import (
	"encoding/json"
	"fmt"
	"math/rand"
)

// shrinkBool: development aid. Delta-debugs a failing BooleanOp event using the
// transliterated postcondition (never used for verdicts).
func boolFails(e *BoolEv) bool {
	r := rand.New(rand.NewSource(7))
	c := *e
	c.Subj, c.Clip = clonePaths(e.Subj), clonePaths(e.Clip)
	execBool(r, &c)
	return c.Hints > 0 || c.Out != "ok"
}

func shrinkBool(b []byte) {
	var e BoolEv
	if err := json.Unmarshal(b, &e); err != nil {
		fatal(err)
	}
	e.Chk = []string{"C01"}
	if !boolFails(&e) {
		fmt.Println("does not fail")
		return
	}
	changed := true
	for changed {
		changed = false
		for _, set := range []*Paths{&e.Subj, &e.Clip} {
			for i := 0; i < len(*set); i++ {
				old := *set
				n := append(append(Paths{}, old[:i]...), old[i+1:]...)
				*set = n
				if boolFails(&e) {
					changed = true
					i--
				} else {
					*set = old
				}
			}
			for i := 0; i < len(*set); i++ {
				for j := 0; j < len((*set)[i]); j++ {
					old := (*set)[i]
					n := append(append(Path{}, old[:j]...), old[j+1:]...)
					(*set)[i] = n
					if boolFails(&e) {
						changed = true
						j--
					} else {
						(*set)[i] = old
					}
				}
			}
		}
	}
	r := rand.New(rand.NewSource(7))
	execBool(r, &e)
	out, _ := json.Marshal(&e)
	fmt.Println(string(out))
}
