package main

import (
	"encoding/json"
	"fmt"
	"sync"

	clipper "github.com/bolom009/go-clipper2"
)

// Concurrency (C18), package-level functions: every exported function that takes paths is called from
// many goroutines at once.  Goroutines with the same variant number share the very same input slices
// (read-only sharing), goroutines with different variant numbers work on different coordinates, so that
// any state shared through the library (a cache, a pooled buffer, a scratch slice) shows up as a result
// that differs from the result of the same call run alone.

const pkgVariants = 6

type pkgInput struct {
	subj, clip, open clipper.Paths64
	subjD, clipD     clipper.PathsD
	openD            clipper.PathsD
	pattern          clipper.Path64
	patternD         clipper.PathD
	rect             clipper.Rect64 // contains subj[1] entirely, crosses the others
	rectD            clipper.RectD
	prec             int
	snapshot         string
}

func makePkgInput(v int) *pkgInput {
	k, dx, dy := int64(v%3+1), int64(37*v), int64(-11*v)
	tr := func(s clipper.Paths64) clipper.Paths64 {
		out := make(clipper.Paths64, len(s), len(s)+4) // spare capacity: an in-place append by the library would be shared scratch space
		for i, p := range s {
			out[i] = make(clipper.Path64, len(p), len(p)+4)
			for j, q := range p {
				out[i][j] = clipper.Point64{X: q.X*k + dx, Y: q.Y*k + dy}
			}
		}
		return out
	}
	toD := func(s clipper.Paths64, f float64) clipper.PathsD {
		out := make(clipper.PathsD, len(s), len(s)+4)
		for i, p := range s {
			out[i] = make(clipper.PathD, len(p), len(p)+4)
			for j, q := range p {
				out[i][j] = clipper.PointD{X: float64(q.X)*f + 0.25*float64(v), Y: float64(q.Y)*f - 0.125*float64(v)}
			}
		}
		return out
	}
	in := &pkgInput{prec: v % 3}
	in.subj = tr(concSubj)
	in.clip = tr(concClip)
	in.open = tr(clipper.Paths64{
		{{X: -20, Y: 30}, {X: 60, Y: 45}, {X: 60, Y: 45}, {X: 200, Y: 50}},
		{{X: 40, Y: -30}, {X: 45, Y: 130}, {X: 90, Y: 130}, {X: 95, Y: 40}},
		{{X: 30, Y: 30}, {X: 50, Y: 30}, {X: 70, Y: 30}, {X: 70, Y: 50}},
	})
	// a 24-gon and a triangle entirely inside the rectangle, the other paths cross it
	ring := clipper.Path64{}
	for i := 0; i < 24; i++ {
		ring = append(ring, clipper.Point64{X: 60 + int64(i%7) + int64(3*((i*5)%8)), Y: 40 + int64((i*11)%29)})
	}
	in.subj = append(in.subj, tr(clipper.Paths64{ring, {{X: 40, Y: 30}, {X: 70, Y: 35}, {X: 50, Y: 60}}})...)
	in.subjD, in.clipD, in.openD = toD(in.subj, 0.5), toD(in.clip, 0.5), toD(in.open, 0.5)
	in.pattern = tr(clipper.Paths64{{{X: -3, Y: -2}, {X: 4, Y: -1}, {X: 2, Y: 5}, {X: -2, Y: 3}}})[0]
	in.patternD = toD(clipper.Paths64{in.pattern}, 0.25)[0]
	r := tr(clipper.Paths64{{{X: 25, Y: 15}, {X: 140, Y: 85}}})[0]
	in.rect = clipper.NewRect64(r[0].X, r[0].Y, r[1].X, r[1].Y)
	in.rectD = clipper.NewRectD(float64(r[0].X)*0.5, float64(r[0].Y)*0.5, float64(r[1].X)*0.5, float64(r[1].Y)*0.5)
	in.snapshot = in.dump()
	return in
}

func (in *pkgInput) dump() string {
	b, _ := json.Marshal([]any{in.subj, in.clip, in.open, in.subjD, in.clipD, in.openD, in.pattern, in.patternD})
	return string(b)
}

func tree64J(n *clipper.PolyPathBase) any { return flattenT(n) }

type pkgFn struct {
	name string
	run  func(in *pkgInput) any
}

func pkgFns() []pkgFn {
	fns := []pkgFn{}
	add := func(name string, f func(in *pkgInput) any) { fns = append(fns, pkgFn{name, f}) }
	for ct := 1; ct <= 4; ct++ {
		ct := ct
		add(fmt.Sprintf("BooleanOpPaths64(%d)", ct), func(in *pkgInput) any {
			return clipper.BooleanOpPaths64(clipper.ClipType(ct), in.subj, in.clip, clipper.FillRule(ct%4))
		})
		add(fmt.Sprintf("BooleanOpPathsD(%d)", ct), func(in *pkgInput) any {
			return clipper.BooleanOpPathsD(clipper.ClipType(ct), in.subjD, in.clipD, clipper.FillRule((ct+1)%4), in.prec)
		})
	}
	add("UnionPaths64", func(in *pkgInput) any { return clipper.UnionPaths64(in.subj, clipper.NonZero) })
	add("XorWithClipPathsD", func(in *pkgInput) any { return clipper.XorWithClipPathsD(in.subjD, in.clipD, clipper.EvenOdd) })
	add("BooleanOpPolyTree64", func(in *pkgInput) any {
		t := clipper.BooleanOpPolyTree64(clipper.Union, in.subj, in.clip, clipper.EvenOdd)
		return tree64J(t.PolyPathBase)
	})
	add("BooleanOpPolyTreeD", func(in *pkgInput) any {
		t := clipper.BooleanOpPolyTreeD(clipper.Xor, in.subjD, in.clipD, clipper.NonZero, in.prec)
		return tree64J(t.PolyPathBase)
	})
	jts := []clipper.JoinType{clipper.Miter, clipper.Square, clipper.Bevel, clipper.Round}
	ets := []clipper.EndType{clipper.Polygon, clipper.Joined, clipper.Butt, clipper.SquareET, clipper.RoundET}
	for i := 0; i < 5; i++ {
		jt, et := jts[i%4], ets[i]
		add(fmt.Sprintf("InflatePaths64(%d,%d)", jt, et), func(in *pkgInput) any {
			src := in.subj
			if et != clipper.Polygon {
				src = in.open
			}
			return clipper.InflatePaths64(src, 3.5, jt, et)
		})
		add(fmt.Sprintf("InflatePathsD(%d,%d)", jt, et), func(in *pkgInput) any {
			src := in.subjD
			if et != clipper.Polygon {
				src = in.openD
			}
			return clipper.InflatePathsD(src, -1.25, jt, et, clipper.WithPrecision(in.prec))
		})
	}
	add("RectClipPaths64", func(in *pkgInput) any { return clipper.RectClipPaths64(in.rect, in.subj) })
	add("RectClipPath64", func(in *pkgInput) any { return clipper.RectClipPath64(in.rect, in.subj[len(in.subj)-2]) })
	add("RectClipPathsD", func(in *pkgInput) any { return clipper.RectClipPathsD(in.rectD, in.subjD, in.prec) })
	add("RectClipPathD", func(in *pkgInput) any { return clipper.RectClipPathD(in.rectD, in.subjD[len(in.subjD)-2]) })
	add("RectClipLinesPaths64", func(in *pkgInput) any { return clipper.RectClipLinesPaths64(in.rect, in.open) })
	add("RectClipLinesPath64", func(in *pkgInput) any { return clipper.RectClipLinesPath64(in.rect, in.open[2]) })
	add("RectClipLinesPathsD", func(in *pkgInput) any { return clipper.RectClipLinesPathsD(in.rectD, in.openD, in.prec) })
	add("RectClipLinesPathD", func(in *pkgInput) any { return clipper.RectClipLinesPathD(in.rectD, in.openD[2]) })
	add("MinkowskiSum64", func(in *pkgInput) any { return clipper.MinkowskiSum64(in.pattern, in.subj[0], true) })
	add("MinkowskiDiff64", func(in *pkgInput) any { return clipper.MinkowskiDiff64(in.pattern, in.open[1], false) })
	add("MinkowskiSumD", func(in *pkgInput) any { return clipper.MinkowskiSumD(in.patternD, in.subjD[0], true, in.prec) })
	add("MinkowskiDiffD", func(in *pkgInput) any { return clipper.MinkowskiDiffD(in.patternD, in.openD[1], false, in.prec) })
	add("SimplifyPaths64", func(in *pkgInput) any { return clipper.SimplifyPaths64(in.subj, 2.5, true) })
	add("SimplifyPathsD", func(in *pkgInput) any { return clipper.SimplifyPathsD(in.openD, 0.75, false) })
	add("TrimCollinear64", func(in *pkgInput) any {
		return []any{clipper.TrimCollinear64(in.open[2], true), clipper.TrimCollinear64(in.subj[0], false)}
	})
	add("TrimCollinearD", func(in *pkgInput) any { return clipper.TrimCollinearD(in.openD[2], in.prec, true) })
	add("StripDuplicates", func(in *pkgInput) any { return clipper.StripDuplicates(in.open[0], false) })
	add("Area", func(in *pkgInput) any {
		return []any{clipper.AreaPaths64(in.subj), clipper.AreaPathsD(in.clipD), clipper.IsPositive64(in.subj[1]), clipper.IsPositiveD(in.subjD[2])}
	})
	add("PointInPolygon", func(in *pkgInput) any {
		out := []int{}
		for _, q := range in.clip[0] {
			for _, p := range in.subj {
				out = append(out, int(clipper.PointInPolygon(q, p)))
			}
		}
		return out
	})
	add("Scale", func(in *pkgInput) any {
		return []any{clipper.ScalePathsDToPaths64(in.subjD, 100), clipper.ScalePaths64ToPathsD(in.clip, 0.01), clipper.ScalePath64(in.subj[0], 1),
			clipper.ScalePathD(in.subjD[0], 1), clipper.PathsDToPaths64(in.clipD), clipper.Paths64ToPathsD(in.subj)}
	})
	add("Translate", func(in *pkgInput) any {
		return []any{clipper.TranslatePaths64(in.subj, 5, -7), clipper.TranslatePathsD(in.clipD, 0.5, 2), clipper.OffsetPath(in.open[0], 3, 3)}
	})
	add("Bounds", func(in *pkgInput) any {
		return []any{clipper.GetBounds64(in.subj[0]), clipper.Path2ContainsPath1(in.subj[len(in.subj)-1], in.subj[0])}
	})
	add("Ellipse", func(in *pkgInput) any {
		return []any{clipper.Ellipse64(in.pattern[0], 20, 12, 0), clipper.EllipseD(in.patternD[1], 7.5, 3, 9)}
	})
	return fns
}

func jsonOf(v any) string {
	b, err := json.Marshal(v)
	if err != nil {
		return "marshal error: " + err.Error()
	}
	return string(b)
}

// runPkg: g goroutines x rounds over every package-level function; the calls are appended to the
// SchedRun event of the free run
func runPkg(e *SchedEv, g, rounds int) {
	fns := pkgFns()
	inputs := make([]*pkgInput, pkgVariants)
	alone := make([][]string, len(fns))
	aloneOut := make([][]string, len(fns))
	for v := range inputs {
		inputs[v] = makePkgInput(v)
	}
	for f, fn := range fns {
		alone[f] = make([]string, pkgVariants)
		aloneOut[f] = make([]string, pkgVariants)
		for v := range inputs {
			aloneOut[f][v] = safeCall(func() { alone[f][v] = jsonOf(fn.run(inputs[v])) })
		}
	}
	var wg sync.WaitGroup
	var mu sync.Mutex
	bad := make([]bool, len(fns))
	outs := make([]string, len(fns))
	for i := 0; i < g; i++ {
		wg.Add(1)
		go func(i int) {
			defer wg.Done()
			for k := 0; k < rounds; k++ {
				for j := range fns {
					f := (i*7 + k + j) % len(fns)
					v := (i + 3*k + j) % pkgVariants
					var res string
					out := safeCall(func() { res = jsonOf(fns[f].run(inputs[v])) })
					if out != aloneOut[f][v] || res != alone[f][v] {
						mu.Lock()
						bad[f] = true
						if out != aloneOut[f][v] {
							outs[f] = out
						}
						mu.Unlock()
					}
				}
			}
		}(i)
	}
	wg.Wait()
	for f, fn := range fns {
		o := "ok" // a call that fails in the same way when run alone is another property's business
		if outs[f] != "" {
			o = outs[f]
		}
		e.Calls = append(e.Calls, ConcCall{Proc: 100 + f, Api: "pkg:" + fn.name, Out: o, Same: !bad[f]})
	}
	for v := range inputs {
		if inputs[v].dump() != inputs[v].snapshot {
			e.InputsSame = false
		}
	}
}
