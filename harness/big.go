package main

import (
	"math/big"
)

// BigJ is the JSON form of spec/BigInt.tla values: sign and little-endian base-10^4 limbs.
type BigJ struct {
	S int     `json:"s"`
	M []int64 `json:"m"`
}

func bigJ(v *big.Int) BigJ {
	out := BigJ{S: v.Sign(), M: []int64{}}
	a := new(big.Int).Abs(v)
	b := big.NewInt(10000)
	r := new(big.Int)
	for a.Sign() != 0 {
		a.QuoRem(a, b, r)
		out.M = append(out.M, r.Int64())
	}
	return out
}

func bigJ64(v int64) BigJ { return bigJ(big.NewInt(v)) }

// BPt / BPath: points with limb-encoded coordinates (for magnitudes beyond 2^30)
type BPt [2]BigJ
type BPath []BPt
type BPaths []BPath

func toBPath(p Path) BPath {
	out := make(BPath, len(p))
	for i, q := range p {
		out[i] = BPt{bigJ64(q[0]), bigJ64(q[1])}
	}
	return out
}

func toBPaths(s Paths) BPaths {
	out := make(BPaths, len(s))
	for i, q := range s {
		out[i] = toBPath(q)
	}
	return out
}

// floatTimes2 returns 2*f as an exact big integer when it is integral.
func floatTimes2(f float64) (BigJ, bool) {
	bf := new(big.Float).SetFloat64(f)
	bf.Mul(bf, big.NewFloat(2))
	if !bf.IsInt() {
		return bigJ64(0), false
	}
	i, _ := bf.Int(nil)
	return bigJ(i), true
}
