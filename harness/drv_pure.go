package main

import (
	"math"
	"math/rand"

	clipper "github.com/bolom009/go-clipper2"
)

// ---------------------------------------------------------------- C14 measures / predicates

type MeasureEv struct {
	Ev   string   `json:"ev"` // "Measure"
	Chk  []string `json:"chk"`
	Kind string   `json:"kind"` // area | areapaths | ispos | pip | bounds | collinear
	Path Path     `json:"path"`
	Set  Paths    `json:"set"`
	Pt   Pt       `json:"pt"`
	Tri  [3]Pt    `json:"tri"`

	Out      string   `json:"out"`
	Ok       bool     `json:"ok"`
	A2       BigJ     `json:"a2"`    // 2 * returned area (exact)
	A2Int    bool     `json:"a2int"` // 2 * returned area was an integer
	B        bool     `json:"b"`     // boolean result
	Pip      int      `json:"pip"`   // 0 IsOn 1 IsInside 2 IsOutside
	Rect     [4]int64 `json:"rect"`
	Det      bool     `json:"det"`
	ArgsSame bool     `json:"argsSame"`
	Nontriv  bool     `json:"nontriv"`
}

// interesting magnitudes for C14: differences of 0, +-1, +-2 and values near 2^26 / 2^29
func magCoord(r *rand.Rand) int64 {
	base := []int64{0, 0, 1 << 26, -(1 << 26), (1 << 29) - 4, -(1 << 29) + 4, 1 << 20, 12345, (1 << 28) + 1}[r.Intn(9)]
	switch r.Intn(4) {
	case 0:
		return base + int64(r.Intn(5)-2)
	case 1:
		return base + int64(r.Intn(41)-20)
	default:
		v := base + r.Int63n(1<<27) - (1 << 26)
		if v > 1<<29 {
			v = 1 << 29
		}
		if v < -(1 << 29) {
			v = -(1 << 29)
		}
		return v
	}
}

func magPath(r *rand.Rand, n int) Path {
	p := make(Path, n)
	switch r.Intn(3) {
	case 0: // small lattice (exact ties, on-boundary points)
		for i := range p {
			p[i] = Pt{int64(r.Intn(5)), int64(r.Intn(5))}
		}
	case 1: // one anchor with unit-scale offsets at a large magnitude
		ax, ay := magCoord(r), magCoord(r)
		for i := range p {
			p[i] = Pt{clamp29(ax + int64(r.Intn(9)-4)), clamp29(ay + int64(r.Intn(9)-4))}
		}
	default:
		for i := range p {
			p[i] = Pt{magCoord(r), magCoord(r)}
		}
	}
	return p
}

func clamp29(v int64) int64 {
	if v > 1<<29 {
		return 1 << 29
	}
	if v < -(1 << 29) {
		return -(1 << 29)
	}
	return v
}

func execMeasure(e *MeasureEv) {
	p0 := append(Path{}, e.Path...)
	e.Ok = true
	e.A2 = bigJ64(0)
	run := func() (BigJ, bool, bool, int, [4]int64) {
		var a2 BigJ = bigJ64(0)
		var a2int, b bool
		var pip int
		var rc [4]int64
		switch e.Kind {
		case "area":
			a2, a2int = floatTimes2(clipper.Area64(to64(e.Path)))
		case "areapaths":
			a2, a2int = floatTimes2(clipper.AreaPaths64(toPaths64(e.Set)))
		case "ispos":
			b = clipper.IsPositive64(to64(e.Path))
		case "pip":
			pip = int(clipper.PointInPolygon(clipper.Point64{X: e.Pt[0], Y: e.Pt[1]}, to64(e.Path)))
		case "bounds":
			bb := clipper.GetBounds64(to64(e.Path))
			ap := bb.AsPath()
			rc = [4]int64{ap[0].X, ap[0].Y, ap[2].X, ap[2].Y}
		case "collinear":
			t := e.Tri
			b = clipper.VerifIsCollinear(clipper.Point64{X: t[0][0], Y: t[0][1]}, clipper.Point64{X: t[1][0], Y: t[1][1]}, clipper.Point64{X: t[2][0], Y: t[2][1]})
		}
		return a2, a2int, b, pip, rc
	}
	var a2b BigJ
	var a2intb, bb bool
	var pipb int
	var rcb [4]int64
	e.Out = safeCall(func() {
		e.A2, e.A2Int, e.B, e.Pip, e.Rect = run()
		a2b, a2intb, bb, pipb, rcb = run()
	})
	e.Det = e.A2Int == a2intb && e.B == bb && e.Pip == pipb && e.Rect == rcb && e.A2.S == a2b.S && len(e.A2.M) == len(a2b.M)
	e.ArgsSame = equalPaths(Paths{p0}, Paths{e.Path}) && argsUnchanged()
	if e.Set == nil {
		e.Set = Paths{}
	}
	if e.Path == nil {
		e.Path = Path{}
	}
}

func driveMeasure(r *rand.Rand, w *writer, n int) {
	kinds := []string{"area", "areapaths", "ispos", "pip", "pip", "bounds", "collinear", "collinear"}
	for i := 0; i < n; i++ {
		e := &MeasureEv{Ev: "Measure", Chk: chkFor("C14"), Kind: kinds[r.Intn(len(kinds))]}
		switch e.Kind {
		case "area", "ispos", "bounds":
			e.Path = magPath(r, r.Intn(8))
			e.Nontriv = len(e.Path) >= 3
		case "areapaths":
			k := 1 + r.Intn(3)
			for j := 0; j < k; j++ {
				e.Set = append(e.Set, magPath(r, 3+r.Intn(4)))
			}
			e.Nontriv = true
		case "pip":
			e.Path = magPath(r, 3+r.Intn(6))
			switch r.Intn(4) {
			case 0: // a vertex
				e.Pt = e.Path[r.Intn(len(e.Path))]
			case 1: // midpoint of an edge (if integral) or near it
				j := r.Intn(len(e.Path))
				a, b := e.Path[j], e.Path[(j+1)%len(e.Path)]
				e.Pt = Pt{(a[0] + b[0]) / 2, (a[1] + b[1]) / 2}
			case 2: // same row as a vertex
				a := e.Path[r.Intn(len(e.Path))]
				e.Pt = Pt{clamp29(a[0] + int64(r.Intn(7)-3)), a[1]}
			default:
				b, _ := boundsOf(Paths{e.Path})
				e.Pt = Pt{b.x0 + r.Int63n(b.x1-b.x0+1), b.y0 + r.Int63n(b.y1-b.y0+1)}
			}
			e.Nontriv = true
		case "collinear":
			a, b := Pt{magCoord(r), magCoord(r)}, Pt{magCoord(r), magCoord(r)}
			var c Pt
			switch r.Intn(4) {
			case 0: // exactly collinear: c = b + k (b - a) for small vectors
				a = Pt{magCoord(r), magCoord(r)}
				d := Pt{int64(r.Intn(9) - 4), int64(r.Intn(9) - 4)}
				b = Pt{clamp29(a[0] + d[0]), clamp29(a[1] + d[1])}
				k := int64(r.Intn(7) - 3)
				c = Pt{clamp29(b[0] + k*d[0]), clamp29(b[1] + k*d[1])}
			case 1: // off by one unit from collinear
				d := Pt{int64(r.Intn(2001) - 1000), int64(r.Intn(2001) - 1000)}
				b = Pt{clamp29(a[0] + d[0]), clamp29(a[1] + d[1])}
				c = Pt{clamp29(b[0] + 2*d[0] + int64(r.Intn(3)-1)), clamp29(b[1] + 2*d[1] + int64(r.Intn(3)-1))}
			case 2: // unit differences
				b = Pt{clamp29(a[0] + int64(r.Intn(5)-2)), clamp29(a[1] + int64(r.Intn(5)-2))}
				c = Pt{clamp29(b[0] + int64(r.Intn(5)-2)), clamp29(b[1] + int64(r.Intn(5)-2))}
			default:
				c = Pt{magCoord(r), magCoord(r)}
			}
			e.Tri = [3]Pt{a, b, c}
			e.Nontriv = true
		}
		execMeasure(e)
		w.emit(e)
	}
}

// ---------------------------------------------------------------- C15 TrimCollinear64

type TrimEv struct {
	Ev     string   `json:"ev"` // "Trim"
	Chk    []string `json:"chk"`
	Path   Path     `json:"path"`
	IsOpen bool     `json:"isOpen"`
	// the library is called on Path with every coordinate multiplied by K (up to 2^61 / extent, "all
	// paths"); Path, Res and Res2 are logged in base coordinates (exact division; MapOK: every returned
	// coordinate was a multiple of K) - every condition of the specification is an exact, scale-invariant one
	K     BigJ `json:"k"`
	MapOK bool `json:"mapOK"`

	Out      string `json:"out"`
	Ok       bool   `json:"ok"`
	Res      Path   `json:"res"`
	Res2     Path   `json:"res2"` // TrimCollinear64(res)
	Det      bool   `json:"det"`
	ArgsSame bool   `json:"argsSame"`
	Probes   []Pt   `json:"probes"`
	Nontriv  bool   `json:"nontriv"`
}

func execTrim(r *rand.Rand, e *TrimEv) {
	p0 := append(Path{}, e.Path...)
	e.Ok = true
	k := bigJToInt(e.K)
	if k == 0 {
		k = 1
		e.K = bigJ64(1)
	}
	e.MapOK = true
	scaled := make(clipper.Path64, len(e.Path))
	for i, q := range e.Path {
		scaled[i] = clipper.Point64{X: q[0] * k, Y: q[1] * k}
	}
	back := func(p clipper.Path64) clipper.Path64 {
		out := make(clipper.Path64, len(p))
		for i, q := range p {
			if q.X%k != 0 || q.Y%k != 0 {
				e.MapOK = false
			}
			out[i] = clipper.Point64{X: q.X / k, Y: q.Y / k}
		}
		return out
	}
	var res, res2, resb clipper.Path64
	e.Out = safeCall(func() {
		res = clipper.TrimCollinear64(scaled, e.IsOpen)
		resb = clipper.TrimCollinear64(scaled, e.IsOpen)
		res2 = clipper.TrimCollinear64(res, e.IsOpen)
	})
	e.Det = equalPaths(Paths{from64(res)}, Paths{from64(resb)})
	res, res2 = back(res), back(res2)
	e.Res, e.Res2 = from64(res), from64(res2)
	e.ArgsSame = equalPaths(Paths{p0}, Paths{e.Path}) && argsUnchanged()
	// probes: a few points of the bounding box; the spec keeps those off the input boundary
	e.Probes = []Pt{}
	if b, ok := boundsOf(Paths{e.Path}); ok && !e.IsOpen {
		bad := func(p Pt) bool {
			return !onPathClosed(p, e.Path) && wnPath(p, e.Path) != wnPath(p, e.Res)
		}
		var cands []Pt
		if (b.x1-b.x0+1)*(b.y1-b.y0+1) <= 4000 {
			for y := b.y0; y <= b.y1; y++ {
				for x := b.x0; x <= b.x1; x++ {
					cands = append(cands, Pt{x, y})
				}
			}
		} else {
			for k := 0; k < 200; k++ {
				cands = append(cands, Pt{b.x0 + r.Int63n(b.x1-b.x0+1), b.y0 + r.Int63n(b.y1-b.y0+1)})
			}
		}
		sel := selectProbes(r, cands, bad, nil, 4, 8)
		e.Probes = sel.Probes
	}
	e.Nontriv = len(e.Res) != len(e.Path) && len(e.Res) > 0
}

func onPathClosed(p Pt, path Path) bool {
	n := len(path)
	for i := 0; i < n; i++ {
		if onSeg(p, path[i], path[(i+1)%n]) {
			return true
		}
	}
	return false
}

// trimPath: paths with runs of collinear points (also across index 0), spikes, duplicates, unit steps
func trimPath(r *rand.Rand) Path {
	var p Path
	ox, oy := int64(0), int64(0)
	if r.Intn(4) == 0 {
		ox, oy = magCoord(r), magCoord(r)
		ox, oy = clamp29(ox)/2, clamp29(oy)/2
	}
	sc := []int64{1, 1, 2, 8, 1000}[r.Intn(5)]
	n := 3 + r.Intn(6)
	cur := Pt{ox, oy}
	for i := 0; i < n && len(p) < 9; i++ {
		d := Pt{int64(r.Intn(7)-3) * sc, int64(r.Intn(7)-3) * sc}
		k := 1
		switch r.Intn(6) {
		case 0:
			k = 2 + r.Intn(2) // run of collinear points
		case 1: // spike: go and come back
			p = append(p, Pt{cur[0] + d[0], cur[1] + d[1]}, cur)
			continue
		case 2: // duplicate
			p = append(p, cur)
			continue
		}
		for j := 0; j < k; j++ {
			cur = Pt{cur[0] + d[0], cur[1] + d[1]}
			p = append(p, cur)
		}
	}
	// rotate so that collinear runs span the start index
	if len(p) > 0 {
		k := r.Intn(len(p))
		p = append(append(Path{}, p[k:]...), p[:k]...)
	}
	return p
}

// antennaPath: a rectangle with a zero-width antenna of k bent segments that is retraced exactly,
// attached inside a straight edge; optionally rotated so that the antenna spans the start index
func antennaPath(r *rand.Rand) Path {
	s := int64(10 * (1 + r.Intn(3)))
	p := Path{{0, 0}, {10 * s, 0}, {10 * s, 5 * s}}
	k := 1 + r.Intn(3)
	cur := Pt{10 * s, 5 * s}
	var out Path
	for i := 0; i < k; i++ {
		if i%2 == 0 {
			cur = Pt{cur[0] + int64(1+r.Intn(4))*s, cur[1]}
		} else {
			cur = Pt{cur[0], cur[1] + int64(1+r.Intn(3))*s}
		}
		out = append(out, cur)
	}
	p = append(p, out...)
	for i := len(out) - 2; i >= 0; i-- {
		p = append(p, out[i])
	}
	p = append(p, Pt{10 * s, 5 * s}, Pt{10 * s, 10 * s}, Pt{0, 10 * s})
	if r.Intn(2) == 0 {
		j := r.Intn(len(p))
		p = append(append(Path{}, p[j:]...), p[:j]...)
	}
	return p
}

func driveTrim(r *rand.Rand, w *writer, n int) {
	for i := 0; i < n; i++ {
		var p Path
		switch r.Intn(6) {
		case 0, 1:
			p = latticePath(r, 3, 1, 0, 0, r.Intn(7))
		case 2:
			p = antennaPath(r)
		default:
			p = trimPath(r)
		}
		e := &TrimEv{Ev: "Trim", Chk: chkFor("C15"), Path: p, IsOpen: r.Intn(3) == 0, K: bigJ64(1)}
		if e.Path == nil {
			e.Path = Path{}
		}
		// a third of the small paths are trimmed at large magnitude: products of coordinate differences then
		// exceed 64 bits and the collinearity test depends on the 128-bit multiplication
		if b, ok := boundsOf(Paths{e.Path}); ok && r.Intn(3) == 0 {
			ext := max64(max64(abs64(b.x0), abs64(b.x1)), max64(abs64(b.y0), abs64(b.y1))) + 1
			if ext < 1<<15 {
				maxK := (int64(1) << 61) / ext
				var kk int64
				switch r.Intn(4) {
				case 0:
					kk = []int64{3000000019, 10000000000, 1<<32 + 1, 1<<36 + 12345, 1<<40 - 1}[r.Intn(5)]
				case 1:
					kk = maxK
				default:
					kk = int64(1)<<uint(30+r.Intn(28)) + r.Int63n(1<<30)
				}
				if kk > maxK {
					kk = maxK
				}
				e.K = bigJ64(kk)
			}
		}
		execTrim(r, e)
		w.emit(e)
	}
}

// ---------------------------------------------------------------- C16 SimplifyPath

type SimpVar struct {
	Dx      int64 `json:"dx"`
	Dy      int64 `json:"dy"`
	K       int64 `json:"k"` // scale (power of two); epsilon is scaled with it
	KExp    int   `json:"kexp"` // floating-point variants only: scale 2^kexp with kexp < 0 (k is then logged as 0)
	Removed []int `json:"removed"`
}

type SimplifyEv struct {
	Ev     string   `json:"ev"` // "Simplify"
	Chk    []string `json:"chk"`
	Api    string   `json:"api"` // SimplifyPath64 | SimplifyPaths64 | SimplifyPathD | SimplifyPathsD
	Path   Path     `json:"path"`
	EpsN   int64    `json:"epsN"` // epsilon = epsN / epsD
	EpsD   int64    `json:"epsD"`
	Closed bool     `json:"closed"`
	// the library is called on Path translated by Off (anywhere inside +-2^52, C13/C16 "at all
	// magnitudes"); Path and Res are logged in base coordinates (the translation is undone exactly),
	// the specification's exact rational acceptance conditions being translation invariant
	Off [2]BigJ `json:"off"`

	Out      string    `json:"out"`
	Ok       bool      `json:"ok"`
	Res      Path      `json:"res"`
	Removed  []int     `json:"removed"` // 0-based indices in removal order (hook)
	Vars     []SimpVar `json:"vars"`    // translated / scaled re-runs (index sets only)
	Det      bool      `json:"det"`
	ArgsSame bool      `json:"argsSame"`
	Nontriv  bool      `json:"nontriv"`
}

func runSimplify(api string, path Path, eps float64, closed bool) (Path, []int, string) {
	return runSimplifyF(api, path, eps, closed, 1)
}

// runSimplifyF: f scales the coordinates handed to the floating-point variants (a power of two, exact)
func runSimplifyF(api string, path Path, eps float64, closed bool, f float64) (Path, []int, string) {
	var removed []int
	var res Path
	out := safeCall(func() {
		clipper.VerifSimplifyHook = func(i int) { removed = append(removed, i) }
		defer func() { clipper.VerifSimplifyHook = nil }()
		switch api {
		case "SimplifyPath64":
			res = from64(clipper.SimplifyPath64(to64(path), eps, closed))
		case "SimplifyPaths64":
			// the path is the last of three: the others (a longer and a shorter ring whose odd vertices are exactly
			// collinear, so every one of them is removed) must not influence it; their removals are counted first
			// and skipped in the recorded removal order
			d1, d2 := simplifyDecoy(len(path)+3), simplifyDecoy(4)
			clipper.SimplifyPaths64(clipper.Paths64{d1, d2}, eps, closed)
			skip := len(removed)
			removed = removed[:0]
			all := clipper.SimplifyPaths64(clipper.Paths64{d1, d2, to64(path)}, eps, closed)
			res = from64(all[2])
			if len(removed) >= skip {
				removed = removed[skip:]
			}
		case "SimplifyPathD", "SimplifyPathsD":
			pd := make(clipper.PathD, len(path))
			for i, q := range path {
				pd[i] = clipper.PointD{X: float64(q[0]) * f, Y: float64(q[1]) * f}
			}
			var rd clipper.PathD
			if api == "SimplifyPathD" {
				rd = clipper.SimplifyPathD(pd, eps, closed)
			} else {
				d1 := clipper.Path64ToPathD(simplifyDecoy(len(path) + 3))
				clipper.SimplifyPathsD(clipper.PathsD{d1}, eps, closed)
				skip := len(removed)
				removed = removed[:0]
				rd = clipper.SimplifyPathsD(clipper.PathsD{d1, pd}, eps, closed)[1]
				if len(removed) >= skip {
					removed = removed[skip:]
				}
			}
			res = make(Path, len(rd))
			for i, q := range rd {
				res[i] = Pt{int64(math.Round(q.X / f)), int64(math.Round(q.Y / f))}
			}
		}
	})
	if removed == nil {
		removed = []int{}
	}
	return res, removed, out
}

// simplifyDecoy: a convex ring of at least n vertices whose odd vertices are the exact mid-points of its even ones
func simplifyDecoy(n int) clipper.Path64 {
	m := (n + 1) / 2
	if m < 3 {
		m = 3
	}
	corners := make(clipper.Path64, m)
	for i := range corners {
		a := 2 * math.Pi * float64(i) / float64(m)
		corners[i] = clipper.Point64{X: 2 * int64(math.Round(5000*math.Cos(a))), Y: 2 * int64(math.Round(5000*math.Sin(a)))}
	}
	d := make(clipper.Path64, 0, 2*m)
	for i, c := range corners {
		nx := corners[(i+1)%m]
		d = append(d, c, clipper.Point64{X: (c.X + nx.X) / 2, Y: (c.Y + nx.Y) / 2})
	}
	return d
}

func execSimplify(r *rand.Rand, e *SimplifyEv) {
	p0 := append(Path{}, e.Path...)
	eps := float64(e.EpsN) / float64(e.EpsD)
	e.Ok = true
	var res2 Path
	off := Pt{bigJToInt(e.Off[0]), bigJToInt(e.Off[1])}
	shifted := func(p Path, sg int64) Path {
		q := make(Path, len(p))
		for i, v := range p {
			q[i] = Pt{v[0] + sg*off[0], v[1] + sg*off[1]}
		}
		return q
	}
	if off != (Pt{}) {
		tp := shifted(e.Path, 1)
		e.Res, e.Removed, e.Out = runSimplify(e.Api, tp, eps, e.Closed)
		res2, _, _ = runSimplify(e.Api, tp, eps, e.Closed)
		e.Det = equalPaths(Paths{e.Res}, Paths{res2})
		e.ArgsSame = equalPaths(Paths{shifted(p0, 1)}, Paths{tp}) && argsUnchanged()
		e.Res = shifted(e.Res, -1)
		e.Vars = []SimpVar{}
		e.Nontriv = len(e.Removed) > 0 && len(e.Res) > 2
		return
	}
	e.Res, e.Removed, e.Out = runSimplify(e.Api, e.Path, eps, e.Closed)
	res2, _, _ = runSimplify(e.Api, e.Path, eps, e.Closed)
	e.Det = equalPaths(Paths{e.Res}, Paths{res2})
	e.ArgsSame = equalPaths(Paths{p0}, Paths{e.Path}) && argsUnchanged()
	if e.Res == nil {
		e.Res = Path{}
	}
	// metamorphic variants: translation, power-of-two scaling (path and epsilon)
	recorded := e.Vars // on replay the recorded transformations are re-used
	e.Vars = []SimpVar{}
	b, ok := boundsOf(Paths{e.Path})
	if ok && e.Out == "ok" {
		ext := max64(max64(abs64(b.x0), abs64(b.x1)), max64(abs64(b.y0), abs64(b.y1))) + 1
		if ext >= 1<<29 {
			ext = 1<<29 - 1
		}
		for t := 0; t < 3; t++ {
			v := SimpVar{K: 1}
			lim := int64(1 << 29)
			if t < len(recorded) {
				v.Dx, v.Dy, v.K = recorded[t].Dx, recorded[t].Dy, recorded[t].K
			} else if t == 0 {
				// translations that keep every coordinate inside [-2^29, 2^29]
				v.Dx = -(lim + b.x0) + r.Int63n(2*lim-(b.x1-b.x0)+1)
				v.Dy = -(lim + b.y0) + r.Int63n(2*lim-(b.y1-b.y0)+1)
			} else if t == 1 {
				v.Dx, v.Dy = lim-b.x1, -lim-b.y0
			} else {
				for v.K*2*ext <= lim && v.K < 1<<20 && r.Intn(6) != 0 {
					v.K *= 2
				}
			}
			q := make(Path, len(e.Path))
			for i, p := range e.Path {
				q[i] = Pt{p[0]*v.K + v.Dx, p[1]*v.K + v.Dy}
			}
			_, rem, out := runSimplify(e.Api, q, eps*float64(v.K), e.Closed)
			if out != "ok" {
				rem = []int{-1}
			}
			v.Removed = rem
			e.Vars = append(e.Vars, v)
		}
		if e.Api == "SimplifyPathD" || e.Api == "SimplifyPathsD" {
			// floating-point variants: path and epsilon divided by a power of two (down to 2^-40)
			v := SimpVar{K: 0}
			if len(recorded) > 3 {
				v.KExp = recorded[3].KExp
			} else {
				v.KExp = -(1 + r.Intn(40))
			}
			f := math.Ldexp(1, v.KExp)
			_, rem, out := runSimplifyF(e.Api, e.Path, eps*f, e.Closed, f)
			if out != "ok" {
				rem = []int{-1}
			}
			v.Removed = rem
			e.Vars = append(e.Vars, v)
		}
	}
	e.Nontriv = len(e.Removed) > 0 && len(e.Res) > 2
}

// bigCollinearPath: a closed path around 2^28 with long edges (3e7..6e7) carrying exactly collinear
// midpoints and vertices one unit off a line: the regime where float64 products of coordinates lose bits
func bigCollinearPath(r *rand.Rand) Path {
	ox, oy := int64(1<<28)-int64(r.Intn(1<<20)), int64(1<<27)+int64(r.Intn(1<<20))
	if r.Intn(2) == 0 {
		ox = -ox
	}
	l := int64(30000000 + r.Intn(30000000))
	h := int64(20000000 + r.Intn(20000000))
	dx, dy := int64(3+r.Intn(5)), int64(1+r.Intn(4))
	a := Pt{ox, oy}
	b := Pt{ox + 2*(l/dx/2)*dx, oy + 2*(l/dx/2)*dy} // (b - a) is an even multiple of (dx, dy): exact midpoint
	m := Pt{(a[0] + b[0]) / 2, (a[1] + b[1]) / 2}
	c := Pt{b[0] - h/3, b[1] + h}
	d := Pt{a[0] + h/5, a[1] + h}
	p := Path{a, m, b, c}
	if r.Intn(2) == 0 { // one unit off the line c-d
		p = append(p, Pt{(c[0] + d[0]) / 2, (c[1]+d[1])/2 + 1})
	}
	p = append(p, d)
	if r.Intn(2) == 0 {
		j := r.Intn(len(p))
		p = append(append(Path{}, p[j:]...), p[:j]...)
	}
	return p
}

func simplifyPathGen(r *rand.Rand) Path {
	if r.Intn(4) == 0 {
		return bigCollinearPath(r)
	}
	n := r.Intn(10)
	if r.Intn(8) == 0 {
		n = r.Intn(4)
	}
	p := make(Path, 0, n)
	lim := []int64{6, 20, 60, 1000, 100000}[r.Intn(5)]
	cur := Pt{r.Int63n(2*lim+1) - lim, r.Int63n(2*lim+1) - lim}
	for i := 0; i < n; i++ {
		switch r.Intn(5) {
		case 0: // near-collinear continuation
			d := Pt{r.Int63n(lim/2+2) + 1, r.Int63n(3) - 1}
			cur = Pt{cur[0] + d[0], cur[1] + d[1]}
		case 1: // duplicate
		default:
			cur = Pt{r.Int63n(2*lim+1) - lim, r.Int63n(2*lim+1) - lim}
		}
		p = append(p, cur)
	}
	return p
}

var simplifyApis = []string{"SimplifyPath64", "SimplifyPaths64", "SimplifyPathD", "SimplifyPathsD"}

// bigOffset: a translation that keeps a path of extent ext inside +-2^52: anywhere, on a diagonal at a
// power of two, or at the corner of the range
func bigOffset(r *rand.Rand, ext int64) Pt {
	lim := int64(1)<<52 - ext - 1
	switch r.Intn(4) {
	case 0:
		sh := uint(30 + r.Intn(22))
		sx, sy := int64(1-2*r.Intn(2)), int64(1-2*r.Intn(2))
		return Pt{sx * (int64(1) << sh), sy * (int64(1) << sh)}
	case 1:
		return Pt{lim * int64(1-2*r.Intn(2)), lim * int64(1-2*r.Intn(2))}
	case 2:
		sh := uint(28 + r.Intn(24))
		m := int64(1) << sh
		return Pt{r.Int63n(2*m) - m, r.Int63n(2*m) - m}
	}
	return Pt{r.Int63n(2*lim) - lim, r.Int63n(2*lim) - lim}
}

// driveSimplify: offFrac of 4 events are run far from the origin (mode "C13S": all of them)
func driveSimplify(r *rand.Rand, w *writer, n int, chk []string, offFrac int) {
	epsList := [][2]int64{{0, 1}, {1, 2}, {1, 1}, {2, 1}, {7, 2}, {10, 1}, {1, 4}, {100, 1}}
	for i := 0; i < n; i++ {
		ep := epsList[r.Intn(len(epsList))]
		e := &SimplifyEv{Ev: "Simplify", Chk: chkFor(chk...), Api: simplifyApis[r.Intn(4)],
			Path: simplifyPathGen(r), EpsN: ep[0], EpsD: ep[1], Closed: r.Intn(2) == 0}
		e.Off = [2]BigJ{bigJ64(0), bigJ64(0)}
		if r.Intn(4) < offFrac {
			ext := int64(1)
			if b, ok := boundsOf(Paths{e.Path}); ok {
				ext = max64(max64(abs64(b.x0), abs64(b.x1)), max64(abs64(b.y0), abs64(b.y1))) + 1
			}
			o := bigOffset(r, ext)
			e.Off = [2]BigJ{bigJ64(o[0]), bigJ64(o[1])}
		}
		if len(e.Path) > 0 && abs64(e.Path[0][0]) > 1<<27 && r.Intn(2) == 0 {
			e.EpsN, e.EpsD = 0, 1 // exact collinearity decisions at large magnitude
		}
		execSimplify(r, e)
		w.emit(e)
	}
}
