package main

import (
	"math/big"
	"math/rand"

	clipper "github.com/bolom009/go-clipper2"
)

// MinkEv: Minkowski sum / difference (C08).
type MinkEv struct {
	Ev      string   `json:"ev"` // "Mink"
	Chk     []string `json:"chk"`
	Pattern Path     `json:"pattern"`
	Path    Path     `json:"path"`
	Closed  bool     `json:"closed"`
	Sum     bool     `json:"sum"`

	Out      string `json:"out"`
	Ok       bool   `json:"ok"`
	Sol      Paths  `json:"sol"`
	SolSwap  Paths  `json:"solSwap"` // Sum(path, pattern) for closed sums
	HasSwap  bool   `json:"hasSwap"`
	KV       MagVar `json:"kv"` // the same call with pattern and path scaled by k, mapped back to base units
	Sol2Same bool   `json:"sol2same"`
	ArgsSame bool   `json:"argsSame"`
	Probes   []Pt   `json:"probes"`
	Hints    int    `json:"hints"`
	Nontriv  bool   `json:"nontriv"`
}

func callMink(pattern, path Path, closed, sum bool) (Paths, string) {
	var res clipper.Paths64
	out := safeCall(func() {
		if sum {
			res = clipper.MinkowskiSum64(to64(pattern), to64(path), closed)
		} else {
			res = clipper.MinkowskiDiff64(to64(pattern), to64(path), closed)
		}
	})
	return nz(fromPaths64(res)), out
}

// quads: the parallelograms (path edge (+) +-pattern edge); their edges carry the band
func minkQuads(e *MinkEv) Paths {
	var qs Paths
	np, nq := len(e.Pattern), len(e.Path)
	if np == 0 || nq == 0 {
		return qs
	}
	sg := int64(1)
	if !e.Sum {
		sg = -1
	}
	last := nq - 1
	if e.Closed {
		last = nq
	}
	if nq == 1 {
		last = 1
	}
	for i := 0; i < last; i++ {
		c, d := e.Path[i], e.Path[(i+1)%nq]
		for j := 0; j < np; j++ {
			a, b := e.Pattern[j], e.Pattern[(j+1)%np]
			qs = append(qs, Path{{c[0] + sg*a[0], c[1] + sg*a[1]}, {d[0] + sg*a[0], d[1] + sg*a[1]},
				{d[0] + sg*b[0], d[1] + sg*b[1]}, {c[0] + sg*b[0], c[1] + sg*b[1]}})
		}
	}
	return qs
}

// minkTruth: the translated (reflected for Sum) pattern boundary meets the path
func minkTruth(e *MinkEv, p Pt) bool {
	np, nq := len(e.Pattern), len(e.Path)
	if np == 0 || nq == 0 {
		return false
	}
	sg := int64(-1)
	if !e.Sum {
		sg = 1
	}
	last := nq - 1
	if e.Closed {
		last = nq
	}
	for j := 0; j < np; j++ {
		a, b := e.Pattern[j], e.Pattern[(j+1)%np]
		ta, tb := Pt{p[0] + sg*a[0], p[1] + sg*a[1]}, Pt{p[0] + sg*b[0], p[1] + sg*b[1]}
		if nq == 1 {
			if onSeg(e.Path[0], ta, tb) {
				return true
			}
			continue
		}
		for i := 0; i < last; i++ {
			if segsMeet(ta, tb, e.Path[i], e.Path[(i+1)%nq]) {
				return true
			}
		}
	}
	return false
}

func execMink(r *rand.Rand, e *MinkEv) {
	p0, q0 := append(Path{}, e.Pattern...), append(Path{}, e.Path...)
	e.Sol, e.Out = callMink(e.Pattern, e.Path, e.Closed, e.Sum)
	e.Ok = true
	s2, _ := callMink(e.Pattern, e.Path, e.Closed, e.Sum)
	e.Sol2Same = equalPaths(e.Sol, s2)
	e.ArgsSame = equalPaths(Paths{p0, q0}, Paths{e.Pattern, e.Path}) && argsUnchanged()
	e.SolSwap = Paths{}
	if e.Closed && e.Sum && len(e.Path) >= 3 && len(e.Pattern) >= 3 {
		e.SolSwap, _ = callMink(e.Path, e.Pattern, true, true)
		e.HasSwap = true
	}
	// magnitude: pattern and path multiplied by k (coordinate sums stay below 2^61)
	{
		k := big.NewInt(1)
		if e.KV.K.S != 0 {
			k = big.NewInt(bigJToInt(e.KV.K)) // replay: the recorded factor
		} else {
			k = big.NewInt(1000 + r.Int63n(2000000000000000))
			if r.Intn(3) == 0 {
				k = big.NewInt(int64(1) << uint(20+r.Intn(30)))
			}
		}
		zero := [2]*big.Int{big.NewInt(0), big.NewInt(0)}
		var rk clipper.Paths64
		out := safeCall(func() {
			pk, qk := mapPath(e.Pattern, zero, k), mapPath(e.Path, zero, k)
			if e.Sum {
				rk = clipper.MinkowskiSum64(pk, qk, e.Closed)
			} else {
				rk = clipper.MinkowskiDiff64(pk, qk, e.Closed)
			}
		})
		e.KV = MagVar{Kind: "k", T: [2]BigJ{bigJ64(0), bigJ64(0)}, K: bigJ(k), Out: out, Sol: paths64B(rk), A2: bigJ64(0)}
		e.KV.Q, e.KV.QOk = mapBack(rk, zero, k)
		e.KV.Q = nz(e.KV.Q)
	}
	qs := minkQuads(e)
	far := func(p Pt) bool { return farClosed(p, qs, 8) }
	bad := func(p Pt) bool {
		if !far(p) {
			return false
		}
		w := wnPaths(p, e.Sol)
		if (w != 0) != minkTruth(e, p) {
			return true
		}
		if farClosed(p, e.Sol, 8) && w != 0 && w != 1 {
			return true
		}
		if farClosed(p, qs, 12) && farClosed(p, e.KV.Q, 12) && farClosed(p, e.Sol, 12) && (w != 0) != (wnPaths(p, e.KV.Q) != 0) {
			return true
		}
		if e.HasSwap && farClosed(p, e.SolSwap, 8) && farClosed(p, e.Sol, 8) && (w != 0) != (wnPaths(p, e.SolSwap) != 0) {
			return true
		}
		return false
	}
	cands := candidatePoints(r, []Paths{qs, e.Sol}, 5)
	sel := selectProbes(r, cands, bad, far, 10, nProbes)
	e.Probes, e.Hints = sel.Probes, sel.Hints
	in, out := false, false
	for _, p := range e.Probes {
		if far(p) {
			if minkTruth(e, p) {
				in = true
			} else {
				out = true
			}
		}
	}
	e.Nontriv = in && out
}

func driveMink(r *rand.Rand, w *writer, n int) {
	for i := 0; i < n; i++ {
		var pattern Path
		switch r.Intn(4) {
		case 0:
			pattern = regularish(r, 0, 0, 6+14*r.Float64(), 3+r.Intn(5))
		case 1: // non-convex
			pattern = starPath(r, 0, 0, 8+12*r.Float64(), 5+2*r.Intn(2), 2)
		case 2: // negatively oriented quad
			pattern = rectPath(-int64(2+r.Intn(8)), -int64(2+r.Intn(8)), int64(2+r.Intn(8)), int64(2+r.Intn(8)), false)
		default:
			pattern = generalPath(r, -12, 12, 3+r.Intn(4))
		}
		np := 1 + r.Intn(5)
		path := make(Path, 0, np)
		cur := Pt{int64(r.Intn(60) - 30), int64(r.Intn(60) - 30)}
		for k := 0; k < np; k++ {
			path = append(path, cur)
			if r.Intn(5) == 0 { // collinear continuation
				cur = Pt{cur[0] + 10, cur[1] + 5}
			} else {
				cur = Pt{cur[0] + int64(r.Intn(61)-30), cur[1] + int64(r.Intn(61)-30)}
			}
		}
		if r.Intn(16) == 0 { // many-vertex operands: 170..870 quadrilaterals in one call
			pattern = regularish(r, 0, 0, 18+14*r.Float64(), 17+r.Intn(13))
			np = 10 + r.Intn(20)
			path = path[:0]
			cur = Pt{int64(r.Intn(60) - 30), int64(r.Intn(60) - 30)}
			for k := 0; k < np; k++ {
				path = append(path, cur)
				cur = Pt{cur[0] + int64(r.Intn(41)-20), cur[1] + int64(r.Intn(41)-20)}
			}
		}
		e := &MinkEv{Ev: "Mink", Chk: chkFor("C08"), Pattern: pattern, Path: path, Closed: r.Intn(2) == 0, Sum: r.Intn(2) == 0}
		execMink(r, e)
		w.emit(e)
	}
}
