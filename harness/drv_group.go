package main

import (
	"math/rand"

	clipper "github.com/bolom009/go-clipper2"
)

// ---------------------------------------------------------------- C19: the four operations on one input

type GroupEv struct {
	Ev   string   `json:"ev"` // "BoolGroup"
	Chk  []string `json:"chk"`
	Fr   int      `json:"fr"`
	Subj Paths    `json:"subj"`
	Clip Paths    `json:"clip"`
	// Api "wrappers": every solution from a fresh package-level call; "engine": one Clipper64 object loaded
	// once and executed four times in the order Order (a permutation of the clip types 1..4), the natural
	// way to obtain the four solutions of one input
	Api   string `json:"api"`
	Order []int  `json:"order"`

	Out      string `json:"out"`
	Ok       bool   `json:"ok"`
	I        Paths  `json:"i"`   // Intersection
	U        Paths  `json:"u"`   // Union
	D        Paths  `json:"d"`   // Difference(subject, clip)
	X        Paths  `json:"x"`   // Xor
	D2       Paths  `json:"d2"`  // Difference(clip, subject)
	US       Paths  `json:"us"`  // UnionPaths64(subject)
	UC       Paths  `json:"uc"`  // UnionPaths64(clip)
	US2      Paths  `json:"us2"` // BooleanOpPaths64(Union, subject, nil)
	ArgsSame bool   `json:"argsSame"`
	Probes   []Pt   `json:"probes"`
	Hints    int    `json:"hints"`
	Nontriv  bool   `json:"nontriv"`
	NVerts   int    `json:"nverts"`
}

func execGroup(r *rand.Rand, e *GroupEv) {
	s0, c0 := clonePaths(e.Subj), clonePaths(e.Clip)
	s, c := toPaths64(e.Subj), toPaths64(e.Clip)
	fr := clipper.FillRule(e.Fr)
	e.Ok = true
	if e.Order == nil {
		e.Order = []int{}
	}
	e.Out = safeCall(func() {
		if e.Api == "engine" {
			g := clipper.NewClipper64()
			g.AddPaths(s, clipper.Subject, false)
			g.AddPaths(c, clipper.Clip, false)
			for _, ct := range e.Order {
				var sol clipper.Paths64
				if !g.Execute(clipper.ClipType(ct), fr, &sol) {
					e.Ok = false
				}
				switch ct {
				case 1:
					e.I = fromPaths64(sol)
				case 2:
					e.U = fromPaths64(sol)
				case 3:
					e.D = fromPaths64(sol)
				case 4:
					e.X = fromPaths64(sol)
				}
			}
			g2 := clipper.NewClipper64()
			g2.AddPaths(c, clipper.Subject, false)
			g2.AddPaths(s, clipper.Clip, false)
			var junk, sol clipper.Paths64
			g2.Execute(clipper.Xor, fr, &junk)
			g2.Execute(clipper.Difference, fr, &sol)
			e.D2 = fromPaths64(sol)
		} else {
			e.I = fromPaths64(clipper.BooleanOpPaths64(clipper.Intersection, s, c, fr))
			e.U = fromPaths64(clipper.BooleanOpPaths64(clipper.Union, s, c, fr))
			e.D = fromPaths64(clipper.BooleanOpPaths64(clipper.Difference, s, c, fr))
			e.X = fromPaths64(clipper.BooleanOpPaths64(clipper.Xor, s, c, fr))
			e.D2 = fromPaths64(clipper.BooleanOpPaths64(clipper.Difference, c, s, fr))
		}
		e.US = fromPaths64(clipper.UnionPaths64(s, fr))
		e.UC = fromPaths64(clipper.UnionPaths64(c, fr))
		e.US2 = fromPaths64(clipper.BooleanOpPaths64(clipper.Union, s, nil, fr))
	})
	for _, p := range []*Paths{&e.I, &e.U, &e.D, &e.X, &e.D2, &e.US, &e.UC, &e.US2} {
		*p = nz(*p)
	}
	e.ArgsSame = equalPaths(s0, e.Subj) && equalPaths(c0, e.Clip) && argsUnchanged()
	all := []Paths{e.Subj, e.Clip, e.I, e.U, e.D, e.X, e.D2, e.US}
	far := func(p Pt) bool {
		for _, s := range all {
			if !farClosed(p, s, 8) {
				return false
			}
		}
		return true
	}
	in := func(s Paths, p Pt) bool { return wnPaths(p, s) != 0 }
	bad := func(p Pt) bool {
		if !far(p) {
			return false
		}
		i, u, d, x, d2, us := in(e.I, p), in(e.U, p), in(e.D, p), in(e.X, p), in(e.D2, p), in(e.US, p)
		if x != (u && !i) || d != (us && !i) {
			return true
		}
		if (d && i) || (d && d2) || (i && d2) || u != (d || i || d2) {
			return true
		}
		return false
	}
	e.NVerts = 0
	for _, s := range []Paths{e.Subj, e.Clip} {
		for _, q := range s {
			e.NVerts += len(q)
		}
	}
	cands := candidatePoints(r, []Paths{e.Subj, e.Clip}, 4)
	np := nProbes
	if e.NVerts > 400 {
		np = 12
		if len(cands) > 3000 {
			r.Shuffle(len(cands), func(i, j int) { cands[i], cands[j] = cands[j], cands[i] })
			cands = cands[:3000]
		}
	}
	sel := selectProbes(r, cands, bad, far, 8, np)
	e.Probes, e.Hints = sel.Probes, sel.Hints
	e.Nontriv = len(e.I) > 0 && len(e.D) > 0
}

// largeSet: many small polygons scattered over a 4096 square (thousands of vertices in total)
func largeSet(r *rand.Rand, npaths int) Paths {
	s := make(Paths, npaths)
	for i := range s {
		cx, cy := int64(r.Intn(3600)+200), int64(r.Intn(3600)+200)
		switch r.Intn(3) {
		case 0:
			s[i] = regularish(r, cx, cy, 20+180*r.Float64(), 5+r.Intn(8))
		case 1:
			s[i] = starPath(r, cx, cy, 30+150*r.Float64(), 7+2*r.Intn(3), 2+r.Intn(2))
		default:
			q := generalPath(r, -150, 150, 3+r.Intn(8))
			for j := range q {
				q[j][0] += cx
				q[j][1] += cy
			}
			s[i] = q
		}
		if r.Intn(2) == 0 {
			rev(s[i])
		}
	}
	return s
}

func driveGroup(r *rand.Rand, w *writer, n int, large bool) {
	for i := 0; i < n; i++ {
		var subj, clip Paths
		if large {
			subj, clip = largeSet(r, 60+r.Intn(200)), largeSet(r, 60+r.Intn(200))
		} else {
			subj, clip, _ = genBoolInput(r)
		}
		e := &GroupEv{Ev: "BoolGroup", Chk: chkFor("C19"), Fr: r.Intn(4), Subj: subj, Clip: nz(clip), Api: "wrappers", Order: []int{}}
		if r.Intn(3) == 0 {
			e.Api = "engine"
			e.Order = []int{1, 2, 3, 4}
			r.Shuffle(4, func(i, j int) { e.Order[i], e.Order[j] = e.Order[j], e.Order[i] })
		}
		execGroup(r, e)
		w.emit(e)
	}
}

// ---------------------------------------------------------------- C17: independence of spelling

type Variant struct {
	Kind string `json:"kind"` // perm rot dupclose dupany rev1 revall revneg swap sym
	J    int    `json:"j"`    // path index (1-based, counted over subject then clip) where applicable
	K    int    `json:"k"`    // rotation amount / vertex index (1-based) / symmetry number 0..7
	Perm []int  `json:"perm"` // permutation of the subject paths (1-based)
	Ct   int    `json:"ct"`
	Fr   int    `json:"fr"`
	Subj Paths  `json:"subj"`
	Clip Paths  `json:"clip"`
	Sol  Paths  `json:"sol"`
	Out  string `json:"out"`
}

type VariantsEv struct {
	Ev   string   `json:"ev"` // "BoolVariants"
	Chk  []string `json:"chk"`
	Ct   int      `json:"ct"`
	Fr   int      `json:"fr"`
	Subj Paths    `json:"subj"`
	Clip Paths    `json:"clip"`

	Out      string    `json:"out"`
	Ok       bool      `json:"ok"`
	Sol      Paths     `json:"sol"`
	Sol2Same bool      `json:"sol2same"`
	Vars     []Variant `json:"vars"`
	Probes   []Pt      `json:"probes"`
	Hints    int       `json:"hints"`
	Nontriv  bool      `json:"nontriv"`
}

// the 8 symmetries of the square lattice
func symPt(k int, p Pt) Pt {
	x, y := p[0], p[1]
	switch k {
	case 0:
		return Pt{x, y}
	case 1:
		return Pt{-y, x}
	case 2:
		return Pt{-x, -y}
	case 3:
		return Pt{y, -x}
	case 4:
		return Pt{-x, y}
	case 5:
		return Pt{x, -y}
	case 6:
		return Pt{y, x}
	default:
		return Pt{-y, -x}
	}
}

func symPaths(k int, s Paths) Paths {
	out := make(Paths, len(s))
	for i, q := range s {
		out[i] = make(Path, len(q))
		for j, p := range q {
			out[i][j] = symPt(k, p)
		}
	}
	return out
}

func revPaths(s Paths) Paths {
	out := clonePaths(s)
	for _, q := range out {
		rev(q)
	}
	return out
}

func runBool(ct, fr int, subj, clip Paths) (Paths, string) {
	var res clipper.Paths64
	out := safeCall(func() {
		res = clipper.BooleanOpPaths64(clipper.ClipType(ct), toPaths64(subj), toPaths64(clip), clipper.FillRule(fr))
	})
	return nz(fromPaths64(res)), out
}

func makeVariant(r *rand.Rand, e *VariantsEv, kind string, old *Variant) (Variant, bool) {
	v := Variant{Kind: kind, Ct: e.Ct, Fr: e.Fr, Subj: clonePaths(e.Subj), Clip: clonePaths(e.Clip), Perm: []int{}}
	if old != nil {
		v.J, v.K, v.Perm = old.J, old.K, old.Perm
	}
	nS := len(e.Subj)
	pick := func() (*Path, bool) { // path J over subject then clip
		if old == nil {
			v.J = 1 + r.Intn(nS+len(e.Clip))
		}
		if v.J <= nS {
			return &v.Subj[v.J-1], true
		}
		return &v.Clip[v.J-1-nS], true
	}
	switch kind {
	case "perm":
		if old == nil {
			v.Perm = make([]int, nS)
			for i, j := range r.Perm(nS) {
				v.Perm[i] = j + 1
			}
		}
		s := make(Paths, nS)
		for i, j := range v.Perm {
			s[i] = e.Subj[j-1]
		}
		v.Subj = clonePaths(s)
	case "rot":
		q, _ := pick()
		if len(*q) == 0 {
			return v, false
		}
		if old == nil {
			v.K = r.Intn(len(*q))
		}
		*q = append(append(Path{}, (*q)[v.K:]...), (*q)[:v.K]...)
	case "dupclose":
		q, _ := pick()
		if len(*q) == 0 {
			return v, false
		}
		*q = append(*q, (*q)[0])
	case "dupany":
		q, _ := pick()
		if len(*q) == 0 {
			return v, false
		}
		if old == nil {
			v.K = 1 + r.Intn(len(*q))
		}
		n := append(Path{}, (*q)[:v.K]...)
		n = append(n, (*q)[v.K-1])
		n = append(n, (*q)[v.K:]...)
		*q = n
	case "rev1":
		if e.Fr != 0 {
			return v, false
		}
		q, _ := pick()
		rev(*q)
	case "revall":
		if e.Fr != 1 && e.Fr != 0 {
			return v, false
		}
		v.Subj, v.Clip = revPaths(e.Subj), revPaths(e.Clip)
	case "revneg":
		if e.Fr != 2 && e.Fr != 3 {
			return v, false
		}
		v.Subj, v.Clip = revPaths(e.Subj), revPaths(e.Clip)
		v.Fr = 5 - e.Fr
	case "swap":
		if e.Ct == 3 {
			return v, false
		}
		v.Subj, v.Clip = clonePaths(e.Clip), clonePaths(e.Subj)
	case "sym":
		if old == nil {
			v.K = 1 + r.Intn(7)
		}
		v.Subj, v.Clip = symPaths(v.K, e.Subj), symPaths(v.K, e.Clip)
		if v.K >= 4 && (e.Fr == 2 || e.Fr == 3) { // reflections reverse orientation
			v.Fr = 5 - e.Fr
		}
	}
	v.Sol, v.Out = runBool(v.Ct, v.Fr, v.Subj, v.Clip)
	return v, true
}

var variantKinds = []string{"perm", "rot", "dupclose", "dupany", "rev1", "revall", "revneg", "swap", "sym", "sym"}

func execVariants(r *rand.Rand, e *VariantsEv) {
	e.Ok = true
	e.Sol, e.Out = runBool(e.Ct, e.Fr, e.Subj, e.Clip)
	s2, _ := runBool(e.Ct, e.Fr, e.Subj, e.Clip)
	e.Sol2Same = equalPaths(e.Sol, s2)
	old := e.Vars
	e.Vars = []Variant{}
	if old != nil {
		for i := range old {
			if v, ok := makeVariant(r, e, old[i].Kind, &old[i]); ok {
				e.Vars = append(e.Vars, v)
			}
		}
	} else {
		for _, k := range r.Perm(len(variantKinds))[:5] {
			if v, ok := makeVariant(r, e, variantKinds[k], nil); ok {
				e.Vars = append(e.Vars, v)
			}
		}
	}
	farIn := func(p Pt) bool { return farClosed(p, e.Subj, 8) && farClosed(p, e.Clip, 8) }
	bad := func(p Pt) bool {
		if !farIn(p) {
			return false
		}
		b := wnPaths(p, e.Sol) != 0
		for _, v := range e.Vars {
			q := p
			if v.Kind == "sym" {
				q = symPt(v.K, p)
			}
			if (wnPaths(q, v.Sol) != 0) != b {
				return true
			}
		}
		return false
	}
	cands := candidatePoints(r, []Paths{e.Subj, e.Clip, e.Sol}, 5)
	sel := selectProbes(r, cands, bad, farIn, 10, nProbes)
	e.Probes, e.Hints = sel.Probes, sel.Hints
	in, out := false, false
	for _, p := range e.Probes {
		if farIn(p) {
			if wnPaths(p, e.Sol) != 0 {
				in = true
			} else {
				out = true
			}
		}
	}
	e.Nontriv = in && out && len(e.Vars) > 0
}

func driveVariants(r *rand.Rand, w *writer, n int) {
	for i := 0; i < n; i++ {
		subj, clip, _ := genBoolInput(r)
		e := &VariantsEv{Ev: "BoolVariants", Chk: chkFor("C17"), Ct: 1 + r.Intn(4), Fr: r.Intn(4), Subj: subj, Clip: nz(clip)}
		execVariants(r, e)
		w.emit(e)
	}
}
