package main

import (
	"bytes"
	"encoding/json"
	"flag"
	"fmt"
	"math/rand"
	"os"
	"strings"

	clipper "github.com/bolom009/go-clipper2"
)

func main() {
	if len(os.Args) < 2 {
		fatal("usage: harness drive|reexec ...")
	}
	switch os.Args[1] {
	case "drive":
		fs := flag.NewFlagSet("drive", flag.ExitOnError)
		prop := fs.String("prop", "", "property id / driver name")
		seed := fs.Int64("seed", 1, "seed")
		n := fs.Int("n", 100, "number of cases")
		out := fs.String("out", "trace.ndjson", "output file")
		np := fs.Int("probes", 48, "probes per event")
		fs.Parse(os.Args[2:])
		nProbes = *np
		r := rand.New(rand.NewSource(*seed))
		w := newWriter(*out)
		drive(*prop, r, w, *n)
		w.close()
		fmt.Printf("EVENTS %d\n", w.n)
	case "reexec":
		fs := flag.NewFlagSet("reexec", flag.ExitOnError)
		in := fs.String("in", "", "replay file (one event per line)")
		out := fs.String("out", "trace.ndjson", "output file")
		cf := fs.String("cf", "", "counter-factual switch")
		fs.Parse(os.Args[2:])
		setCounterFactual(*cf)
		b, err := os.ReadFile(*in)
		if err != nil {
			fatal(err)
		}
		w := newWriter(*out)
		for _, ln := range bytes.Split(b, []byte("\n")) {
			if len(bytes.TrimSpace(ln)) > 0 {
				reexec(ln, w)
			}
		}
		w.close()
		fmt.Printf("EVENTS %d\n", w.n)
	case "replay-life":
		fs := flag.NewFlagSet("replay-life", flag.ExitOnError)
		in := fs.String("in", "", "TLC output with HIST lines")
		out := fs.String("out", "trace.ndjson", "output file")
		fs.Parse(os.Args[2:])
		w := newWriter(*out)
		n := replayLifeFile(rand.New(rand.NewSource(1)), *in, w)
		w.close()
		fmt.Printf("HISTORIES %d EVENTS %d\n", n, w.n)
	case "replay-calls":
		fs := flag.NewFlagSet("replay-calls", flag.ExitOnError)
		in := fs.String("in", "", "TLC output with HIST lines")
		out := fs.String("out", "trace.ndjson", "output file")
		fs.Parse(os.Args[2:])
		w := newWriter(*out)
		n := replayCallsFile(*in, w)
		w.close()
		fmt.Printf("CALLS %d EVENTS %d\n", n, w.n)
	case "replay-small":
		fs := flag.NewFlagSet("replay-small", flag.ExitOnError)
		in := fs.String("in", "", "TLC output with HIST lines")
		out := fs.String("out", "trace.ndjson", "output file")
		chk := fs.String("chk", "C01", "comma-separated clauses to enforce")
		fs.Parse(os.Args[2:])
		w := newWriter(*out)
		nProbes = 24
		n := replaySmallFile(rand.New(rand.NewSource(1)), *in, w, strings.Split(*chk, ","))
		w.close()
		fmt.Printf("INPUTS %d EVENTS %d\n", n, w.n)
	case "replay-sched":
		fs := flag.NewFlagSet("replay-sched", flag.ExitOnError)
		in := fs.String("in", "", "TLC output with HIST lines (schedules)")
		out := fs.String("out", "trace.ndjson", "output file")
		fg := fs.Int("free", 0, "free-running goroutines (0: none)")
		fr := fs.Int("rounds", 50, "rounds per free-running goroutine")
		fs.Parse(os.Args[2:])
		w := newWriter(*out)
		n := replaySchedFile(rand.New(rand.NewSource(1)), *in, w, *fg, *fr)
		w.close()
		fmt.Printf("SCHEDULES %d EVENTS %d\n", n, w.n)
	case "shrink":
		b, err := os.ReadFile(os.Args[2])
		if err != nil {
			fatal(err)
		}
		shrinkBool(b)
	default:
		fatal("unknown subcommand", os.Args[1])
	}
}

// chkOverride: "ARGS:<driver>" / "DET:<driver>" run a driver's workload but enforce only the
// input-immutability (C12) or bit-identical-repetition (C17) clause.
var chkOverride []string

func chkFor(def ...string) []string {
	if chkOverride != nil {
		return chkOverride
	}
	return def
}

func drive(prop string, r *rand.Rand, w *writer, n int) {
	if i := strings.Index(prop, ":"); i > 0 {
		chkOverride = []string{prop[:i]}
		prop = prop[i+1:]
	}
	switch prop {
	case "C01":
		driveBool(r, w, n, []string{"C01"})
	case "C02":
		driveBool(r, w, n, []string{"C02", "UNI"})
	case "C19":
		driveGroup(r, w, n, false)
	case "C19L":
		driveGroup(r, w, n, true)
	case "C17":
		driveVariants(r, w, n)
	case "C05":
		driveInflatePoly(r, w, n)
	case "C10":
		driveInflateOpen(r, w, n)
	case "C08":
		driveMink(r, w, n)
	case "C07":
		driveDvi(r, w, n)
	case "C13":
		driveMag(r, w, n)
	case "SWEEP":
		driveSweep(r, w, n)
	case "UTIL":
		driveUtil(r, w, n)
	case "C04":
		driveTree(r, w, n)
	case "C09":
		driveOpen(r, w, n)
	case "C14":
		driveMeasure(r, w, n)
	case "C15":
		driveTrim(r, w, n)
	case "C16":
		driveSimplify(r, w, n, []string{"C16"}, 1)
	case "C13S":
		driveSimplify(r, w, n, []string{"C13"}, 4)
	case "C06":
		driveRect(r, w, n)
	case "C11":
		driveRectLines(r, w, n)
	default:
		fatal("unknown driver", prop)
	}
}

// reexec re-runs the call described by a recorded event against the current build and
// emits a fresh event (same arguments, new results and probes + the old probes).
func reexec(b []byte, w *writer) {
	var head struct {
		Ev   string `json:"ev"`
		Seed int64  `json:"seed"`
	}
	if err := json.Unmarshal(b, &head); err != nil {
		fatal(err)
	}
	r := rand.New(rand.NewSource(12345))
	switch head.Ev {
	case "BooleanOp":
		var e BoolEv
		if err := json.Unmarshal(b, &e); err != nil {
			fatal(err)
		}
		old := e.Probes
		execBool(r, &e)
		e.Probes = mergeProbes(e.Probes, old)
		e.Gexp = []int{}
		w.emit(&e)
	case "RectClip", "RectClipLines":
		var e RectEv
		if err := json.Unmarshal(b, &e); err != nil {
			fatal(err)
		}
		old := e.Probes
		execRect(r, &e)
		e.Probes = mergeProbes(e.Probes, old)
		w.emit(&e)
	case "BoolGroup":
		var e GroupEv
		if err := json.Unmarshal(b, &e); err != nil {
			fatal(err)
		}
		old := e.Probes
		execGroup(r, &e)
		e.Probes = mergeProbes(e.Probes, old)
		w.emit(&e)
	case "BoolVariants":
		var e VariantsEv
		if err := json.Unmarshal(b, &e); err != nil {
			fatal(err)
		}
		old := e.Probes
		execVariants(r, &e)
		e.Probes = mergeProbes(e.Probes, old)
		w.emit(&e)
	case "Inflate":
		var e InflateEv
		if err := json.Unmarshal(b, &e); err != nil {
			fatal(err)
		}
		old := e.Probes
		execInflate(r, &e)
		e.Probes = mergeProbes(e.Probes, old)
		w.emit(&e)
	case "Mink":
		var e MinkEv
		if err := json.Unmarshal(b, &e); err != nil {
			fatal(err)
		}
		old := e.Probes
		execMink(r, &e)
		e.Probes = mergeProbes(e.Probes, old)
		w.emit(&e)
	case "DvsI":
		var e DviEv
		if err := json.Unmarshal(b, &e); err != nil {
			fatal(err)
		}
		execDvi(&e, dviIn{a: bToDec(e.A), b: bToDec(e.B)})
		w.emit(&e)
	case "MagGroup":
		var e MagEv
		if err := json.Unmarshal(b, &e); err != nil {
			fatal(err)
		}
		old := e.Probes
		execMag(r, &e)
		e.Probes = mergeProbes(e.Probes, old)
		w.emit(&e)
	case "Util":
		var e UtilEv
		if err := json.Unmarshal(b, &e); err != nil {
			fatal(err)
		}
		execUtil(&e)
		w.emit(&e)
	case "Sweep":
		var e SweepEv
		if err := json.Unmarshal(b, &e); err != nil {
			fatal(err)
		}
		old := e.Probes
		execSweep(r, &e)
		e.Probes = mergeProbes(e.Probes, old)
		w.emit(&e)
	case "TreeOp":
		var e TreeEv
		if err := json.Unmarshal(b, &e); err != nil {
			fatal(err)
		}
		old := e.Probes
		execTree(r, &e)
		e.Probes = mergeProbes(e.Probes, old)
		w.emit(&e)
	case "OpenOp":
		var e OpenEv
		if err := json.Unmarshal(b, &e); err != nil {
			fatal(err)
		}
		old, oldOn := e.Probes, e.OnProbes
		execOpen(r, &e)
		e.Probes = mergeProbes(e.Probes, old)
		e.OnProbes = mergeProbes(e.OnProbes, oldOn)
		w.emit(&e)
	case "Measure":
		var e MeasureEv
		if err := json.Unmarshal(b, &e); err != nil {
			fatal(err)
		}
		execMeasure(&e)
		w.emit(&e)
	case "Trim":
		var e TrimEv
		if err := json.Unmarshal(b, &e); err != nil {
			fatal(err)
		}
		old := e.Probes
		execTrim(r, &e)
		e.Probes = mergeProbes(e.Probes, old)
		w.emit(&e)
	case "Simplify":
		var e SimplifyEv
		if err := json.Unmarshal(b, &e); err != nil {
			fatal(err)
		}
		execSimplify(r, &e)
		w.emit(&e)
	default:
		fatal("reexec: unknown event", head.Ev)
	}
}

func mergeProbes(a, b []Pt) []Pt {
	seen := map[Pt]bool{}
	var out []Pt
	for _, p := range append(append([]Pt{}, a...), b...) {
		if !seen[p] {
			seen[p] = true
			out = append(out, p)
		}
	}
	return out
}

// setCounterFactual switches exactly one listed defect off (verif build only); used to
// attribute a rejected event to a known finding by call site.
func setCounterFactual(cf string) {
	switch cf {
	case "":
	case "exact-trisign":
		clipper.VerifSetExactTriSign(true)
	case "no-join":
		clipper.VerifSetJoinMode(1)
	case "strict-join":
		clipper.VerifSetJoinMode(2)
	case "micro-guard":
		clipper.VerifSetMicroFixMode(1)
	case "no-micro":
		clipper.VerifSetMicroFixMode(2)
	case "strict-join+micro-guard":
		clipper.VerifSetJoinMode(2)
		clipper.VerifSetMicroFixMode(1)
	case "keep-loops":
		clipper.VerifSetKeepSplitLoops(true)
	case "micro-guard+keep-loops":
		clipper.VerifSetMicroFixMode(1)
		clipper.VerifSetKeepSplitLoops(true)
	case "strict-join+micro-guard+keep-loops":
		clipper.VerifSetJoinMode(2)
		clipper.VerifSetMicroFixMode(1)
		clipper.VerifSetKeepSplitLoops(true)
	case "no-fixself":
		clipper.VerifSetSkipFixSelfIntersects(true)
	case "no-join+no-fixself":
		clipper.VerifSetJoinMode(1)
		clipper.VerifSetSkipFixSelfIntersects(true)
	case "strict-join+no-fixself":
		clipper.VerifSetJoinMode(2)
		clipper.VerifSetSkipFixSelfIntersects(true)
	default:
		fatal("unknown counter-factual", cf)
	}
}
