package main

import (
	"encoding/json"
	"flag"
	"fmt"
	"math/rand"
	"os"
)

func main() {
	if len(os.Args) < 2 {
		fatal("usage: harness drive|reexec ...")
	}
	switch os.Args[1] {
	case "drive":
		fs := flag.NewFlagSet("drive", flag.ExitOnError)
		prop := fs.String("prop", "", "property id / driver name")
		seed := fs.Int64("seed", 1, "seed")
		n := fs.Int("n", 100, "number of cases")
		out := fs.String("out", "trace.ndjson", "output file")
		np := fs.Int("probes", 48, "probes per event")
		fs.Parse(os.Args[2:])
		nProbes = *np
		r := rand.New(rand.NewSource(*seed))
		w := newWriter(*out)
		drive(*prop, r, w, *n)
		w.close()
		fmt.Printf("EVENTS %d\n", w.n)
	case "reexec":
		fs := flag.NewFlagSet("reexec", flag.ExitOnError)
		in := fs.String("in", "", "replay file (one event)")
		out := fs.String("out", "trace.ndjson", "output file")
		fs.Parse(os.Args[2:])
		b, err := os.ReadFile(*in)
		if err != nil {
			fatal(err)
		}
		w := newWriter(*out)
		reexec(b, w)
		w.close()
		fmt.Printf("EVENTS %d\n", w.n)
	case "shrink":
		b, err := os.ReadFile(os.Args[2])
		if err != nil {
			fatal(err)
		}
		shrinkBool(b)
	default:
		fatal("unknown subcommand", os.Args[1])
	}
}

func drive(prop string, r *rand.Rand, w *writer, n int) {
	switch prop {
	case "C01":
		driveBool(r, w, n, []string{"C01"})
	case "C02":
		driveBool(r, w, n, []string{"C02", "UNI"})
	default:
		fatal("unknown driver", prop)
	}
}

// reexec re-runs the call described by a recorded event against the current build and
// emits a fresh event (same arguments, new results and probes + the old probes).
func reexec(b []byte, w *writer) {
	var head struct {
		Ev   string `json:"ev"`
		Seed int64  `json:"seed"`
	}
	if err := json.Unmarshal(b, &head); err != nil {
		fatal(err)
	}
	r := rand.New(rand.NewSource(12345))
	switch head.Ev {
	case "BooleanOp":
		var e BoolEv
		if err := json.Unmarshal(b, &e); err != nil {
			fatal(err)
		}
		old := e.Probes
		execBool(r, &e)
		e.Probes = mergeProbes(e.Probes, old)
		e.Gexp = []int{}
		w.emit(&e)
	default:
		fatal("reexec: unknown event", head.Ev)
	}
}

func mergeProbes(a, b []Pt) []Pt {
	seen := map[Pt]bool{}
	var out []Pt
	for _, p := range append(append([]Pt{}, a...), b...) {
		if !seen[p] {
			seen[p] = true
			out = append(out, p)
		}
	}
	return out
}
