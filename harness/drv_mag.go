package main

import (
	"math/big"
	"math/rand"

	clipper "github.com/bolom009/go-clipper2"
)

// MagEv: an operation on a small base input and on translated / scaled copies of it (C13).
// Variant results are logged with big coordinates (Sol) together with the harness's mapping back to
// base units Q = round((v - t) / k); the specification verifies the mapping and then judges Q with
// the base property's region clause.
type MagVar struct {
	Kind string `json:"kind"` // "t" translation, "k" scaling
	T    [2]BigJ `json:"t"`
	K    BigJ    `json:"k"`
	Out  string  `json:"out"`
	Sol  BPaths  `json:"sol"`
	Q    Paths   `json:"q"`
	QOk  bool    `json:"qok"` // every mapped coordinate fits the native range
	B    bool    `json:"b"`   // boolean / enum results of measure operations
	N    int     `json:"n"`
	A2   BigJ    `json:"a2"`
}

type MagEv struct {
	Ev     string   `json:"ev"` // "MagGroup"
	Chk    []string `json:"chk"`
	Op     string   `json:"op"` // bool | rect | inflate | pip | area
	Ct     int      `json:"ct"`
	Fr     int      `json:"fr"`
	Subj   Paths    `json:"subj"`
	Clip   Paths    `json:"clip"`
	Rect   [4]int64 `json:"rect"`
	Delta4 int64    `json:"delta4"`
	Jt     int      `json:"jt"`
	Pt     Pt       `json:"pt"`

	Out     string   `json:"out"`
	Ok      bool     `json:"ok"`
	Vars    []MagVar `json:"vars"`
	Probes  []Pt     `json:"probes"`
	Nontriv bool     `json:"nontriv"`
}

func mapPath(p Path, t [2]*big.Int, k *big.Int) clipper.Path64 {
	out := newPath64(len(p))
	for i, q := range p {
		x := new(big.Int).Mul(big.NewInt(q[0]), k)
		y := new(big.Int).Mul(big.NewInt(q[1]), k)
		out[i] = clipper.Point64{X: x.Add(x, t[0]).Int64(), Y: y.Add(y, t[1]).Int64()}
	}
	return regPath64(out)
}

func mapPaths(s Paths, t [2]*big.Int, k *big.Int) clipper.Paths64 {
	out := newPaths64(len(s))
	for i, q := range s {
		out[i] = mapPath(q, t, k)
	}
	return regPaths64(out)
}

// mapBack: Q = round((v - t) / k), half away from zero
func mapBack(s clipper.Paths64, t [2]*big.Int, k *big.Int) (Paths, bool) {
	ok := true
	out := make(Paths, len(s))
	rd := func(v int64, tt *big.Int) int64 {
		x := new(big.Int).Sub(big.NewInt(v), tt)
		x.Mul(x, big.NewInt(2))
		if x.Sign() >= 0 {
			x.Add(x, k)
		} else {
			x.Sub(x, k)
		}
		x.Quo(x, new(big.Int).Mul(k, big.NewInt(2)))
		if !x.IsInt64() || abs64(x.Int64()) > 1<<29 {
			ok = false
			return 0
		}
		return x.Int64()
	}
	for i, q := range s {
		out[i] = make(Path, len(q))
		for j, p := range q {
			out[i][j] = Pt{rd(p.X, t[0]), rd(p.Y, t[1])}
		}
	}
	return out, ok
}

func execMag(r *rand.Rand, e *MagEv) {
	e.Ok, e.Out = true, "ok"
	ext := int64(1)
	if b, ok := boundsOf(e.Subj, e.Clip); ok {
		ext = max64(max64(abs64(b.x0), abs64(b.x1)), max64(abs64(b.y0), abs64(b.y1))) + 64
	}
	recorded := e.Vars
	e.Vars = nil
	nv := 4
	if recorded != nil {
		nv = len(recorded)
	}
	for vi := 0; vi < nv; vi++ {
		t := [2]*big.Int{big.NewInt(0), big.NewInt(0)}
		k := big.NewInt(1)
		kind := "t"
		if recorded != nil {
			kind = recorded[vi].Kind
			t[0], t[1] = big.NewInt(bigJToInt(recorded[vi].T[0])), big.NewInt(bigJToInt(recorded[vi].T[1]))
			k = big.NewInt(bigJToInt(recorded[vi].K))
		} else {
			switch vi {
			case 0: // identity
			case 1: // translation anywhere inside +-2^52
				lim := int64(1)<<52 - ext
				t[0], t[1] = big.NewInt(r.Int63n(2*lim)-lim), big.NewInt(r.Int63n(2*lim)-lim)
				if r.Intn(3) == 0 {
					t[0], t[1] = big.NewInt(lim), big.NewInt(-lim)
				}
			default: // scaling up to MaxCoord
				kind = "k"
				maxK := (int64(1) << 61) / ext
				sh := uint(r.Intn(62))
				kk := int64(1) << sh
				if r.Intn(2) == 0 {
					kk = kk/2 + r.Int63n(kk/2+1) + 1
				}
				if kk > maxK {
					kk = maxK
				}
				if vi == 3 && r.Intn(2) == 0 {
					kk = maxK
				}
				k = big.NewInt(kk)
			}
		}
		v := MagVar{Kind: kind, T: [2]BigJ{bigJ(t[0]), bigJ(t[1])}, K: bigJ(k), Sol: BPaths{}, Q: Paths{}, A2: bigJ64(0)}
		var res clipper.Paths64
		v.Out = safeCall(func() {
			switch e.Op {
			case "bool":
				res = clipper.BooleanOpPaths64(clipper.ClipType(e.Ct), mapPaths(e.Subj, t, k), mapPaths(e.Clip, t, k), clipper.FillRule(e.Fr))
			case "rect":
				c := mapPath(Path{{e.Rect[0], e.Rect[1]}, {e.Rect[2], e.Rect[3]}}, t, k)
				res = clipper.RectClipPaths64(clipper.NewRect64(c[0].X, c[0].Y, c[1].X, c[1].Y), mapPaths(e.Subj, t, k))
			case "inflate":
				d := new(big.Float).SetInt(k)
				kf, _ := d.Float64()
				res = clipper.InflatePaths64(mapPaths(e.Subj, t, k), float64(e.Delta4)/4*kf, clipper.JoinType(e.Jt), clipper.Polygon,
					clipper.WithMitterLimit(2), clipper.WithArcTolerance(0.25*kf))
			case "pip":
				pp := mapPath(Path{e.Pt}, t, k)[0]
				v.N = int(clipper.PointInPolygon(pp, mapPaths(e.Subj, t, k)[0]))
			case "area":
				a := clipper.Area64(mapPaths(e.Subj, t, k)[0])
				a2, isInt := floatTimes2(a)
				v.A2, v.B = a2, isInt
				v.N = 0
				if clipper.IsPositive64(mapPaths(e.Subj, t, k)[0]) {
					v.N = 1
				}
			}
		})
		if e.Op == "bool" || e.Op == "rect" || e.Op == "inflate" {
			v.Sol = paths64B(res)
			v.Q, v.QOk = mapBack(res, t, k)
			v.Q = nz(v.Q)
		}
		e.Vars = append(e.Vars, v)
	}
	// probes in base units, chosen against the identity variant's result
	base := e.Vars[0].Q
	rp := Paths{rectPathOf(e.Rect)}
	var bad func(p Pt) bool
	var useful func(p Pt) bool
	switch e.Op {
	case "bool":
		useful = func(p Pt) bool { return farClosed(p, e.Subj, 12) && farClosed(p, e.Clip, 12) }
		bad = func(p Pt) bool {
			if !useful(p) {
				return false
			}
			ex := expected(e.Ct, e.Fr, e.Subj, e.Clip, p)
			for _, v := range e.Vars {
				if (wnPaths(p, v.Q) != 0) != ex {
					return true
				}
			}
			return false
		}
	case "rect":
		useful = func(p Pt) bool { return farClosed(p, rp, 12) && farClosed(p, e.Subj, 12) }
		bad = func(p Pt) bool {
			if !useful(p) {
				return false
			}
			for _, v := range e.Vars {
				if (wnPaths(p, v.Q) != 0) != (wnPaths(p, base) != 0) {
					return true
				}
			}
			return false
		}
	case "inflate":
		bad = func(p Pt) bool {
			for _, v := range e.Vars {
				if farClosed(p, v.Q, 12) && farClosed(p, base, 12) && (wnPaths(p, v.Q) != 0) != (wnPaths(p, base) != 0) {
					return true
				}
			}
			return false
		}
	}
	e.Probes = []Pt{}
	if bad != nil {
		cands := candidatePoints(r, []Paths{e.Subj, e.Clip, base}, abs64(e.Delta4)/2+6)
		sel := selectProbes(r, cands, bad, useful, 10, nProbes)
		e.Probes = sel.Probes
	}
	e.Nontriv = len(base) > 0 || e.Op == "pip" || e.Op == "area"
}

func driveMag(r *rand.Rand, w *writer, n int) {
	ops := []string{"bool", "bool", "bool", "rect", "inflate", "pip", "area"}
	for i := 0; i < n; i++ {
		e := &MagEv{Ev: "MagGroup", Chk: chkFor("C13"), Op: ops[r.Intn(len(ops))], Ct: 1 + r.Intn(4), Fr: r.Intn(4),
			Subj: Paths{}, Clip: Paths{}}
		switch e.Op {
		case "bool":
			s, c, _ := genBoolInput(r)
			e.Subj, e.Clip = s, nz(c)
			if r.Intn(5) == 0 {
				// special positions: two sloping edges crossing strictly inside a scan-beam at exactly the origin
				// (and the whole figure straddling both axes) - a value that in-band "unset" markers collide with
				tri := func() Path {
					a, b := int64(2+r.Intn(20)), int64(1+r.Intn(20))
					k1, k2 := int64(1+r.Intn(3)), int64(1+r.Intn(3))
					sg := int64(1 - 2*r.Intn(2))
					p1, p2 := Pt{-a * k1, -sg * b * k1}, Pt{a * k2, sg * b * k2} // through the origin
					p3 := Pt{int64(r.Intn(81) - 40), int64(r.Intn(81) - 40)}
					return Path{p1, p2, p3}
				}
				e.Subj, e.Clip = Paths{tri()}, Paths{tri()}
			}
		case "rect":
			e.Subj = genClosedSet(r, []int{0, 1, 2, 6, 7}[r.Intn(5)])
			for _, q := range e.Subj { // simple-ish inputs: the even-turns finding belongs to C06
				_ = q
			}
			e.Rect = genRect(r, e.Subj)
		case "inflate":
			e.Subj = validPolySet(r)
			e.Delta4 = deltaChoices[2+r.Intn(len(deltaChoices)-2)]
			if r.Intn(2) == 0 {
				e.Delta4 = -e.Delta4
			}
			e.Jt = r.Intn(4)
		case "pip":
			e.Subj = Paths{generalPath(r, -20, 20, 3+r.Intn(5))}
			e.Pt = Pt{int64(r.Intn(41) - 20), int64(r.Intn(41) - 20)}
			if r.Intn(3) == 0 {
				e.Pt = e.Subj[0][r.Intn(len(e.Subj[0]))]
			}
		case "area":
			e.Subj = Paths{generalPath(r, -40, 40, 3+r.Intn(6))}
		}
		execMag(r, e)
		w.emit(e)
	}
}
