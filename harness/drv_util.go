package main

import (
	"math/rand"

	clipper "github.com/bolom009/go-clipper2"
)

// UtilEv: the small deterministic helpers of the API (beyond the listed properties; advisory).
type UtilEv struct {
	Ev   string   `json:"ev"` // "Util"
	Chk  []string `json:"chk"`
	Fn   string   `json:"fn"`
	Path Path     `json:"path"`
	Set  Paths    `json:"set"`
	Flag bool     `json:"flag"`
	N1   int64    `json:"n1"`
	N2   int64    `json:"n2"`
	N3   int64    `json:"n3"`
	N4   int64    `json:"n4"`
	Vals []int64  `json:"vals"`

	Out      string  `json:"out"`
	Ok       bool    `json:"ok"`
	Res      Path    `json:"res"`
	ResSet   Paths   `json:"resSet"`
	B        bool    `json:"b"`
	Rect     [4]int64 `json:"rect"`
	ResSet2  Paths   `json:"resSet2"` // the reference computation of an equivalence (see the spec)
	Idx      [][2]int64 `json:"idx"`  // OffsetCallbackConst: (curr, prev) indices the callback received, in call order
	Tree     []TNode `json:"tree"`
	Counts   []int64 `json:"counts"` // PolyTreeAccessors: Count() of every node in depth-first order, root first
	ArgsSame bool    `json:"argsSame"`
	Nontriv  bool    `json:"nontriv"`
}

var utilFns = []string{"StripDuplicates", "ReversePath", "TranslatePath64", "TranslatePaths64", "OffsetPath", "MakePath64",
	"ScalePath64", "Ellipse64", "RectContains", "RectIntersects", "RectMid", "RectIsEmpty", "Path64ToPathD",
	"OffsetCallbackConst", "EngineDScaleFunc", "PolyTreeAccessors", "LowestPathInfo", "PointScale"}

func execUtil(e *UtilEv) {
	p0, s0 := append(Path{}, e.Path...), clonePaths(e.Set)
	e.Ok = true
	e.Res, e.ResSet = Path{}, Paths{}
	e.Out = safeCall(func() {
		switch e.Fn {
		case "StripDuplicates":
			e.Res = from64(clipper.StripDuplicates(to64(e.Path), e.Flag))
		case "ReversePath":
			e.Res = from64(clipper.ReversePath(to64(e.Path)))
		case "TranslatePath64":
			e.Res = from64(clipper.TranslatePath64(to64(e.Path), e.N1, e.N2))
		case "OffsetPath":
			e.Res = from64(clipper.OffsetPath(to64(e.Path), e.N1, e.N2))
		case "TranslatePaths64":
			e.ResSet = fromPaths64(clipper.TranslatePaths64(toPaths64(e.Set), e.N1, e.N2))
		case "MakePath64":
			e.Res = from64(clipper.MakePath64(e.Vals...))
		case "ScalePath64": // scale = n1 / 4
			e.Res = from64(clipper.ScalePath64(to64(e.Path), float64(e.N1)/4))
		case "Ellipse64": // centre (n1, n2) kept in path[0]; radii n1, n2; steps n3
			c := e.Path[0]
			e.Res = from64(clipper.Ellipse64(clipper.Point64{X: c[0], Y: c[1]}, float64(e.N1), float64(e.N2), int(e.N3)))
		case "RectContains", "RectIntersects", "RectMid", "RectIsEmpty":
			a := clipper.NewRect64(e.Path[0][0], e.Path[0][1], e.Path[1][0], e.Path[1][1])
			b := clipper.NewRect64(e.Path[2][0], e.Path[2][1], e.Path[3][0], e.Path[3][1])
			switch e.Fn {
			case "RectContains":
				e.B = a.Contains(b)
			case "RectIntersects":
				e.B = a.Intersects(b)
			case "RectIsEmpty":
				e.B = a.IsEmpty()
			default:
				m := a.MidPoint()
				e.Res = Path{{m.X, m.Y}}
			}
		case "Path64ToPathD":
			d := clipper.Path64ToPathD(to64(e.Path))
			e.Res = from64(clipper.PathDToPath64(d))
		case "OffsetCallbackConst": // polygon offsetting of Set by n1/4, join type n2, through a constant delta callback
			d := float64(e.N1) / 4
			a := clipper.NewClipperOffset(2, 0.25, false, false)
			a.AddPaths(toPaths64(e.Set), clipper.JoinType(e.N2), clipper.Polygon)
			var sa clipper.Paths64
			a.Execute64(d, &sa)
			b := clipper.NewClipperOffset(2, 0.25, false, false)
			b.AddPaths(toPaths64(e.Set), clipper.JoinType(e.N2), clipper.Polygon)
			var cb clipper.DeltaCallbackFunc = func(path *clipper.Path64, norms *clipper.PathD, curr, prev uint8) float64 {
				e.Idx = append(e.Idx, [2]int64{int64(curr), int64(prev)})
				return d
			}
			b.SetDeltaCallback(&cb)
			var sb clipper.Paths64
			b.Execute64(d, &sb)
			e.ResSet, e.ResSet2 = fromPaths64(sb), fromPaths64(sa)
		case "EngineDScaleFunc": // Set[0] subject, Set[1] clip (tenths), clip type n1, fill rule n2, precision 1
			sd, cd := clipper.PathsD{}, clipper.PathsD{}
			for _, q := range e.Set[0:1] {
				pd := clipper.PathD{}
				for _, v := range q {
					pd = append(pd, clipper.PointD{X: float64(v[0]) / 10, Y: float64(v[1]) / 10})
				}
				sd = append(sd, pd)
			}
			for _, q := range e.Set[1:] {
				pd := clipper.PathD{}
				for _, v := range q {
					pd = append(pd, clipper.PointD{X: float64(v[0]) / 10, Y: float64(v[1]) / 10})
				}
				cd = append(cd, pd)
			}
			g1 := clipper.NewClipperD(1)
			g1.AddPaths(sd, clipper.Subject, false)
			g1.AddPaths(cd, clipper.Clip, false)
			var s1, o1 clipper.PathsD
			g1.ExecuteOC(clipper.ClipType(e.N1), clipper.FillRule(e.N2), &s1, &o1)
			g2 := clipper.NewClipperD(1)
			g2.AddPathsWithScaleFunc(sd, clipper.Subject, false, clipper.ScalePathsDToPaths64)
			g2.AddPathsWithScaleFunc(cd, clipper.Clip, false, clipper.ScalePathsDToPaths64)
			var s2, o2 clipper.PathsD
			g2.ExecuteWithScaleFunc(clipper.ClipType(e.N1), clipper.FillRule(e.N2), &s2, &o2, clipper.ScalePath64ToPathD)
			e.ResSet, e.ResSet2 = fromPathsDScaled(s2, 10), fromPathsDScaled(s1, 10)
		case "LowestPathInfo": // the offset group's orientation reference: n3 = index of the lowest path, b = its area is negative
			g := clipper.NewGroup(toPaths64(e.Set), clipper.JoinType(e.N2), clipper.Polygon)
			idx, neg := g.GetLowestPathInfo()
			e.N3, e.B = int64(idx), neg
			co := clipper.NewClipperOffset(2, 0.25, false, false)
			co.AddPaths(toPaths64(e.Set), clipper.JoinType(e.N2), clipper.Polygon)
			e.Flag = co.CheckPathsReversed()
		case "PointScale": // Point64 -> PointD by the scale 2^-n1 and back by 2^n1 (both exact); PointD (n/4) -> Point64 rounds half away from zero
			sc := 1.0
			for k := int64(0); k < e.N1; k++ {
				sc *= 2
			}
			for _, v := range e.Path {
				p := clipper.Point64{X: v[0], Y: v[1]}
				d := p.ToPointDScale(1 / sc)
				q := d.ToPoint64Scale(sc)
				e.Res = append(e.Res, Pt{q.X, q.Y})
				f := clipper.PointD{X: float64(v[0]) / 4, Y: float64(v[1]) / 4}
				h := f.ToPoint64Scale(1)
				e.Res = append(e.Res, Pt{h.X, h.Y})
			}
		case "PolyTreeAccessors": // Set[0] subject, Set[1:] clip, clip type n1, fill rule n2
			t := clipper.BooleanOpPolyTree64(clipper.ClipType(e.N1), toPaths64(e.Set[0:1]), toPaths64(e.Set[1:]), clipper.FillRule(e.N2))
			e.Tree = flattenT(t.PolyPathBase)
			e.Counts = []int64{int64(t.Count())}
			var walk func(n *clipper.PolyPathBase)
			walk = func(n *clipper.PolyPathBase) {
				for _, ch := range n.GetChildren() {
					e.Counts = append(e.Counts, int64(ch.Count()))
					walk(ch)
				}
			}
			walk(t.PolyPathBase)
			t.Clear()
			e.B = t.Count() == 0 && len(t.GetChildren()) == 0
		}
	})
	if e.Res == nil {
		e.Res = Path{}
	}
	if e.Idx == nil {
		e.Idx = [][2]int64{}
	}
	if e.Tree == nil {
		e.Tree = []TNode{}
	}
	if e.Counts == nil {
		e.Counts = []int64{}
	}
	e.ResSet, e.ResSet2 = nz(e.ResSet), nz(e.ResSet2)
	e.ArgsSame = equalPaths(Paths{p0}, Paths{e.Path}) && equalPaths(s0, e.Set) && argsUnchanged()
	e.Nontriv = len(e.Path) > 1 || len(e.Set) > 0 || len(e.Vals) > 0
}

func driveUtil(r *rand.Rand, w *writer, n int) {
	for i := 0; i < n; i++ {
		e := &UtilEv{Ev: "Util", Chk: chkFor("UTIL"), Fn: utilFns[r.Intn(len(utilFns))], Path: Path{}, Set: Paths{}, Vals: []int64{}}
		small := func(k int) Path {
			p := make(Path, k)
			for j := range p {
				p[j] = Pt{int64(r.Intn(9) - 4), int64(r.Intn(9) - 4)}
				if j > 0 && r.Intn(3) == 0 {
					p[j] = p[j-1]
				}
			}
			if k > 1 && r.Intn(3) == 0 {
				p[k-1] = p[0]
			}
			return p
		}
		switch e.Fn {
		case "StripDuplicates":
			e.Path, e.Flag = small(r.Intn(8)), r.Intn(2) == 0
		case "ReversePath", "Path64ToPathD":
			e.Path = generalPath(r, -1000, 1000, r.Intn(7))
		case "TranslatePath64", "OffsetPath":
			e.Path, e.N1, e.N2 = generalPath(r, -1000, 1000, r.Intn(7)), int64(r.Intn(2001)-1000), int64(r.Intn(2001)-1000)
		case "TranslatePaths64":
			e.Set, e.N1, e.N2 = Paths{generalPath(r, -1000, 1000, r.Intn(5)), generalPath(r, -1000, 1000, r.Intn(5))}, int64(r.Intn(2001)-1000), int64(r.Intn(2001)-1000)
		case "MakePath64":
			k := r.Intn(9)
			for j := 0; j < k; j++ {
				e.Vals = append(e.Vals, int64(r.Intn(2001)-1000))
			}
		case "ScalePath64":
			e.Path, e.N1 = generalPath(r, -1000, 1000, r.Intn(7)), int64(r.Intn(41)-8)
		case "Ellipse64":
			e.Path = Path{{int64(r.Intn(201) - 100), int64(r.Intn(201) - 100)}}
			e.N1, e.N2, e.N3 = int64(r.Intn(60)-3), int64(r.Intn(60)-3), int64(r.Intn(40)-2)
		case "OffsetCallbackConst":
			e.Set = genClosedSet(r, 3)
			if len(e.Set) > 2 {
				e.Set = e.Set[:2]
			}
			e.N1, e.N2 = int64(2+r.Intn(40))*int64(1-2*r.Intn(2)), int64(r.Intn(3))
		case "LowestPathInfo":
			e.Set = Paths{}
			for k := r.Intn(4); k >= 0; k-- {
				q := small(3 + r.Intn(4))
				if r.Intn(3) == 0 {
					q = generalPath(r, -6, 6, 3+r.Intn(3))
				}
				e.Set = append(e.Set, q)
			}
			e.N2 = int64(r.Intn(4))
		case "PointScale":
			e.Path, e.N1 = generalPath(r, -1000, 1000, 1+r.Intn(4)), int64(r.Intn(11))
		case "EngineDScaleFunc", "PolyTreeAccessors":
			a, b := genClosedSet(r, r.Intn(3)), genClosedSet(r, r.Intn(3))
			e.Set = append(Paths{a[0]}, b...)
			e.N1, e.N2 = int64(1+r.Intn(4)), int64(r.Intn(4))
		default:
			e.Path = generalPath(r, -10, 10, 4)
		}
		execUtil(e)
		w.emit(e)
	}
}
