package main

import (
	"bufio"
	"bytes"
	"encoding/json"
	"fmt"
	"os"
	"time"

	clipper "github.com/bolom009/go-clipper2"
)

// Event recording. One ndjson line per public call (or call group). Only
// integers (|v| < 2^31), strings, booleans, arrays and objects are written, because
// that is what TLC's Json module turns into TLA+ values without loss.

type writer struct {
	f *os.File
	w *bufio.Writer
	n int
}

func newWriter(path string) *writer {
	f, err := os.Create(path)
	if err != nil {
		fatal(err)
	}
	return &writer{f: f, w: bufio.NewWriterSize(f, 1<<20)}
}

func (w *writer) emit(ev any) {
	b, err := json.Marshal(ev)
	if err != nil {
		fatal(err)
	}
	b = bytes.ReplaceAll(b, []byte(":null"), []byte(":[]")) // nil slices: TLC's Json module rejects null
	w.w.Write(b)
	w.w.WriteByte('\n')
	w.n++
	resetArgs()
}

func (w *writer) close() {
	w.w.Flush()
	w.f.Close()
}

func fatal(a ...any) {
	fmt.Fprintln(os.Stderr, append([]any{"HARNESS-ERROR:"}, a...)...)
	os.Exit(2)
}

// safeCall runs f under recover and a watchdog; returns "ok", "panic:<msg>" or "timeout".
func safeCall(f func()) string {
	done := make(chan string, 1)
	go func() {
		defer func() {
			if r := recover(); r != nil {
				done <- fmt.Sprintf("panic:%v", r)
			}
		}()
		f()
		done <- "ok"
	}()
	select {
	case s := <-done:
		return s
	case <-time.After(watchdog):
		return "timeout"
	}
}

var watchdog = 20 * time.Second

// Argument registry (input immutability, C12): every slice handed to the library is produced by one of the
// conversion helpers below; each is registered together with a deep snapshot, and argsUnchanged() compares the
// live slices (the very backing arrays the library received) with their snapshots. The writer clears the
// registry after every emitted event.
type argRec struct {
	live64, snap64 clipper.Path64
	liveD, snapD   clipper.PathD
}

var argRegistry []argRec

func regPath64(p clipper.Path64) clipper.Path64 {
	if len(argRegistry) < 4096 {
		argRegistry = append(argRegistry, argRec{live64: p, snap64: append(clipper.Path64{}, p...)})
	}
	return p
}

func regPathD(p clipper.PathD) clipper.PathD {
	if len(argRegistry) < 4096 {
		argRegistry = append(argRegistry, argRec{liveD: p, snapD: append(clipper.PathD{}, p...)})
	}
	return p
}

func resetArgs() { argRegistry = argRegistry[:0] }

func argsUnchanged() bool {
	for _, a := range argRegistry {
		if len(a.live64) != len(a.snap64) || len(a.liveD) != len(a.snapD) {
			return false
		}
		for i := range a.live64 {
			if a.live64[i] != a.snap64[i] {
				return false
			}
		}
		for i := range a.liveD {
			if a.liveD[i] != a.snapD[i] {
				return false
			}
		}
	}
	return true
}

func to64(p Path) clipper.Path64 {
	if p == nil {
		return nil
	}
	out := make(clipper.Path64, len(p))
	for i, q := range p {
		out[i] = clipper.Point64{X: q[0], Y: q[1]}
	}
	return regPath64(out)
}

func toPaths64(s Paths) clipper.Paths64 {
	if s == nil {
		return nil
	}
	out := make(clipper.Paths64, len(s))
	for i, q := range s {
		out[i] = to64(q)
	}
	return out
}

func from64(p clipper.Path64) Path {
	out := make(Path, len(p))
	for i, q := range p {
		out[i] = Pt{q.X, q.Y}
	}
	return out
}

func fromPaths64(s clipper.Paths64) Paths {
	out := make(Paths, len(s))
	for i, q := range s {
		out[i] = from64(q)
	}
	return out
}

// nz makes nil slices empty so that JSON never contains null.
func nz(s Paths) Paths {
	if s == nil {
		return Paths{}
	}
	for i := range s {
		if s[i] == nil {
			s[i] = Path{}
		}
	}
	return s
}

func fits32(sets ...Paths) bool {
	for _, s := range sets {
		for _, q := range s {
			for _, p := range q {
				if abs64(p[0]) >= 1<<30 || abs64(p[1]) >= 1<<30 {
					return false
				}
			}
		}
	}
	return true
}
