package main

import (
	"bufio"
	"bytes"
	"encoding/json"
	"fmt"
	"os"
	"time"

	clipper "github.com/bolom009/go-clipper2"
)

// Event recording. One ndjson line per public call (or call group). Only
// integers (|v| < 2^31), strings, booleans, arrays and objects are written, because
// that is what TLC's Json module turns into TLA+ values without loss.

type writer struct {
	f *os.File
	w *bufio.Writer
	n int
}

func newWriter(path string) *writer {
	f, err := os.Create(path)
	if err != nil {
		fatal(err)
	}
	return &writer{f: f, w: bufio.NewWriterSize(f, 1<<20)}
}

func (w *writer) emit(ev any) {
	b, err := json.Marshal(ev)
	if err != nil {
		fatal(err)
	}
	b = bytes.ReplaceAll(b, []byte(":null"), []byte(":[]")) // nil slices: TLC's Json module rejects null
	w.w.Write(b)
	w.w.WriteByte('\n')
	w.n++
	resetArgs()
}

func (w *writer) close() {
	w.w.Flush()
	w.f.Close()
}

func fatal(a ...any) {
	fmt.Fprintln(os.Stderr, append([]any{"HARNESS-ERROR:"}, a...)...)
	os.Exit(2)
}

// safeCall runs f under recover and a watchdog; returns "ok", "panic:<msg>" or "timeout".
func safeCall(f func()) string {
	done := make(chan string, 1)
	go func() {
		defer func() {
			if r := recover(); r != nil {
				done <- fmt.Sprintf("panic:%v", r)
			}
		}()
		f()
		done <- "ok"
	}()
	select {
	case s := <-done:
		return s
	case <-time.After(watchdog):
		return "timeout"
	}
}

var watchdog = 20 * time.Second

// Argument registry (input immutability, C12): every slice handed to the library is produced by one of the
// conversion helpers below. Each is allocated with spare capacity holding sentinel values (a caller may pass a
// sub-slice of a larger buffer: what lies behind len() is the caller's data too) and registered together with a
// deep snapshot of its whole capacity; argsUnchanged() compares the live backing arrays (the very memory the
// library received) with the snapshots. The writer clears the registry after every emitted event.
type argRec struct {
	live64, snap64   clipper.Path64 // whole capacity
	liveD, snapD     clipper.PathD
	liveO64, snapO64 clipper.Paths64 // outer arrays (path headers), whole capacity
	liveOD, snapOD   clipper.PathsD
}

var argRegistry []argRec

const spareCap = 2

var sentinel64 = clipper.Point64{X: 7777777, Y: -7777777}
var sentinelD = clipper.PointD{X: 7777777.5, Y: -7777777.5}
var sentinelPath64 = clipper.Path64{{X: 1234567, Y: 7654321}}
var sentinelPathD = clipper.PathD{{X: 1234567.5, Y: 7654321.5}}

// newPath64 / newPathD: a path of n points with spare capacity filled with sentinels
func newPath64(n int) clipper.Path64 {
	full := make(clipper.Path64, n+spareCap)
	for i := n; i < len(full); i++ {
		full[i] = sentinel64
	}
	return full[:n]
}

func newPathD(n int) clipper.PathD {
	full := make(clipper.PathD, n+spareCap)
	for i := n; i < len(full); i++ {
		full[i] = sentinelD
	}
	return full[:n]
}

func newPaths64(n int) clipper.Paths64 {
	full := make(clipper.Paths64, n+spareCap)
	for i := n; i < len(full); i++ {
		full[i] = sentinelPath64
	}
	return full[:n]
}

func newPathsD(n int) clipper.PathsD {
	full := make(clipper.PathsD, n+spareCap)
	for i := n; i < len(full); i++ {
		full[i] = sentinelPathD
	}
	return full[:n]
}

func regPath64(p clipper.Path64) clipper.Path64 {
	if len(argRegistry) < 8192 {
		full := p[:cap(p)]
		argRegistry = append(argRegistry, argRec{live64: full, snap64: append(clipper.Path64{}, full...)})
	}
	return p
}

func regPathD(p clipper.PathD) clipper.PathD {
	if len(argRegistry) < 8192 {
		full := p[:cap(p)]
		argRegistry = append(argRegistry, argRec{liveD: full, snapD: append(clipper.PathD{}, full...)})
	}
	return p
}

// regPaths64 / regPathsD register the outer array (the path headers, whole capacity) of a path set
func regPaths64(s clipper.Paths64) clipper.Paths64 {
	if len(argRegistry) < 8192 {
		full := s[:cap(s)]
		argRegistry = append(argRegistry, argRec{liveO64: full, snapO64: append(clipper.Paths64{}, full...)})
	}
	return s
}

func regPathsD(s clipper.PathsD) clipper.PathsD {
	if len(argRegistry) < 8192 {
		full := s[:cap(s)]
		argRegistry = append(argRegistry, argRec{liveOD: full, snapOD: append(clipper.PathsD{}, full...)})
	}
	return s
}

func resetArgs() { argRegistry = argRegistry[:0] }

func sameHeader64(a, b clipper.Path64) bool {
	return len(a) == len(b) && cap(a) == cap(b) && (cap(a) == 0 || &a[:1][0] == &b[:1][0])
}

func sameHeaderD(a, b clipper.PathD) bool {
	return len(a) == len(b) && cap(a) == cap(b) && (cap(a) == 0 || &a[:1][0] == &b[:1][0])
}

func argsUnchanged() bool {
	for _, a := range argRegistry {
		for i := range a.live64 {
			if a.live64[i] != a.snap64[i] {
				return false
			}
		}
		for i := range a.liveD {
			if a.liveD[i] != a.snapD[i] {
				return false
			}
		}
		for i := range a.liveO64 {
			if !sameHeader64(a.liveO64[i], a.snapO64[i]) {
				return false
			}
		}
		for i := range a.liveOD {
			if !sameHeaderD(a.liveOD[i], a.snapOD[i]) {
				return false
			}
		}
	}
	return true
}

func to64(p Path) clipper.Path64 {
	if p == nil {
		return nil
	}
	out := newPath64(len(p))
	for i, q := range p {
		out[i] = clipper.Point64{X: q[0], Y: q[1]}
	}
	return regPath64(out)
}

func toPaths64(s Paths) clipper.Paths64 {
	if s == nil {
		return nil
	}
	out := newPaths64(len(s))
	for i, q := range s {
		out[i] = to64(q)
	}
	return regPaths64(out)
}

func from64(p clipper.Path64) Path {
	out := make(Path, len(p))
	for i, q := range p {
		out[i] = Pt{q.X, q.Y}
	}
	return out
}

func fromPaths64(s clipper.Paths64) Paths {
	out := make(Paths, len(s))
	for i, q := range s {
		out[i] = from64(q)
	}
	return out
}

// nz makes nil slices empty so that JSON never contains null.
func nz(s Paths) Paths {
	if s == nil {
		return Paths{}
	}
	for i := range s {
		if s[i] == nil {
			s[i] = Path{}
		}
	}
	return s
}

func fits32(sets ...Paths) bool {
	for _, s := range sets {
		for _, q := range s {
			for _, p := range q {
				if abs64(p[0]) >= 1<<30 || abs64(p[1]) >= 1<<30 {
					return false
				}
			}
		}
	}
	return true
}
