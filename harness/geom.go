package main

// Go transliteration of spec/Geometry.tla and spec/Region.tla. It is used ONLY to
// choose where TLC looks (probe hints) and to decide generator preconditions;
// verdicts are produced by TLC from the TLA+ definitions. Every event also logs
// this transliteration's answers so that TLC can flag drift between the two.

type Pt [2]int64
type Path []Pt
type Paths []Path

func abs64(x int64) int64 {
	if x < 0 {
		return -x
	}
	return x
}
func max64(a, b int64) int64 {
	if a >= b {
		return a
	}
	return b
}
func min64(a, b int64) int64 {
	if a <= b {
		return a
	}
	return b
}
func sgn64(x int64) int64 {
	if x > 0 {
		return 1
	}
	if x < 0 {
		return -1
	}
	return 0
}
func cross(ax, ay, bx, by int64) int64 { return ax*by - ay*bx }
func dot(ax, ay, bx, by int64) int64   { return ax*bx + ay*by }
func orient(a, b, c Pt) int64          { return cross(b[0]-a[0], b[1]-a[1], c[0]-a[0], c[1]-a[1]) }

func edgeW(p, a, b Pt) int {
	if a[1] <= p[1] {
		if b[1] > p[1] && cross(b[0]-a[0], b[1]-a[1], p[0]-a[0], p[1]-a[1]) > 0 {
			return 1
		}
		return 0
	}
	if b[1] <= p[1] && cross(b[0]-a[0], b[1]-a[1], p[0]-a[0], p[1]-a[1]) < 0 {
		return -1
	}
	return 0
}

func wnPath(p Pt, path Path) int {
	n := len(path)
	if n < 2 {
		return 0
	}
	w := 0
	for i := 0; i < n; i++ {
		w += edgeW(p, path[i], path[(i+1)%n])
	}
	return w
}

func wnPaths(p Pt, paths Paths) int {
	w := 0
	for _, q := range paths {
		w += wnPath(p, q)
	}
	return w
}

func lenUB(dx, dy int64) int64 {
	a, b := max64(abs64(dx), abs64(dy)), min64(abs64(dx), abs64(dy))
	return a + (b+1)/2
}

func d2(p, q Pt) int64 { return (p[0]-q[0])*(p[0]-q[0]) + (p[1]-q[1])*(p[1]-q[1]) }

// farSeg: TRUE => dist(p, ab) > r4/4 (same conservative formula as Geometry!FarSeg)
func farSeg(p, a, b Pt, r4 int64) bool {
	dx, dy := b[0]-a[0], b[1]-a[1]
	wx, wy := p[0]-a[0], p[1]-a[1]
	t := dot(wx, wy, dx, dy)
	if t <= 0 {
		return d2(p, a) > (r4*r4)/16
	}
	if t >= dot(dx, dy, dx, dy) {
		return d2(p, b) > (r4*r4)/16
	}
	return abs64(cross(dx, dy, wx, wy)) > (r4*lenUB(dx, dy))/4
}

func farClosedPath(p Pt, path Path, r4 int64) bool {
	n := len(path)
	for i := 0; i < n; i++ {
		if !farSeg(p, path[i], path[(i+1)%n], r4) {
			return false
		}
	}
	return true
}

func farOpenPath(p Pt, path Path, r4 int64) bool {
	if len(path) == 1 {
		return farSeg(p, path[0], path[0], r4)
	}
	for i := 0; i+1 < len(path); i++ {
		if !farSeg(p, path[i], path[i+1], r4) {
			return false
		}
	}
	return true
}

func farClosed(p Pt, paths Paths, r4 int64) bool {
	for _, q := range paths {
		if !farClosedPath(p, q, r4) {
			return false
		}
	}
	return true
}

func farOpen(p Pt, paths Paths, r4 int64) bool {
	for _, q := range paths {
		if !farOpenPath(p, q, r4) {
			return false
		}
	}
	return true
}

func fill(fr int, w int) bool {
	switch fr {
	case 0:
		return w%2 != 0
	case 1:
		return w != 0
	case 2:
		return w > 0
	default:
		return w < 0
	}
}

func comb(ct int, s, c bool) bool {
	switch ct {
	case 1:
		return s && c
	case 2:
		return s || c
	case 3:
		return s && !c
	case 4:
		return s != c
	}
	return false
}

func expected(ct, fr int, subj, clip Paths, p Pt) bool {
	return comb(ct, fill(fr, wnPaths(p, subj)), fill(fr, wnPaths(p, clip)))
}

func area2(path Path) int64 {
	n := len(path)
	if n < 3 {
		return 0
	}
	o := path[0]
	var s int64
	for i := 1; i < n; i++ {
		a, b := path[i], path[(i+1)%n]
		s += cross(a[0]-o[0], a[1]-o[1], b[0]-o[0], b[1]-o[1])
	}
	return s
}

func onSeg(p, a, b Pt) bool {
	return orient(a, b, p) == 0 &&
		min64(a[0], b[0]) <= p[0] && p[0] <= max64(a[0], b[0]) &&
		min64(a[1], b[1]) <= p[1] && p[1] <= max64(a[1], b[1])
}

func segsMeet(a, b, c, d Pt) bool {
	o1, o2 := sgn64(orient(a, b, c)), sgn64(orient(a, b, d))
	o3, o4 := sgn64(orient(c, d, a)), sgn64(orient(c, d, b))
	return (o1*o2 < 0 && o3*o4 < 0) ||
		(o1 == 0 && onSeg(c, a, b)) || (o2 == 0 && onSeg(d, a, b)) ||
		(o3 == 0 && onSeg(a, c, d)) || (o4 == 0 && onSeg(b, c, d))
}

type bbox struct{ x0, y0, x1, y1 int64 }

func boundsOf(sets ...Paths) (bbox, bool) {
	first := true
	var b bbox
	for _, s := range sets {
		for _, q := range s {
			for _, p := range q {
				if first {
					b = bbox{p[0], p[1], p[0], p[1]}
					first = false
					continue
				}
				b.x0, b.y0 = min64(b.x0, p[0]), min64(b.y0, p[1])
				b.x1, b.y1 = max64(b.x1, p[0]), max64(b.y1, p[1])
			}
		}
	}
	return b, !first
}
