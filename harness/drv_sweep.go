package main

import (
	"math/rand"

	clipper "github.com/bolom009/go-clipper2"
)

// SweepEv: the active edge list of every scan-beam of one engine execution (component machine Sweep.tla).
type AelEdge struct {
	Bot    Pt   `json:"bot"`
	Top    Pt   `json:"top"`
	Wdx    int  `json:"wdx"`
	Clip   bool `json:"clip"`
	Open   bool `json:"open"`
	Wc     int  `json:"wc"`
	Wc2    int  `json:"wc2"`
	Hot    bool `json:"hot"`
	Joined bool `json:"joined"`
	Horiz  bool `json:"horiz"`
}

// Xing: one intersection node as it is processed: position (1-based) of edge1 in the active edge list
// at that moment, whether edge2 is its right-hand neighbour, and the rounded intersection point
type Xing struct {
	Pos  int  `json:"pos"`
	Left bool `json:"left"`
	Pt   Pt   `json:"pt"`
}

type Beam struct {
	Y   int64     `json:"y"`
	Ael []AelEdge `json:"ael"`
	Xs  []Xing    `json:"xs"` // intersections processed between this scan-line and the next
}

// Ring: one output record at the end of the sweep (before cleaning / path building)
type Ring struct {
	Idx      int  `json:"idx"`
	Owner    int  `json:"owner"` // -1: none
	HasPts   bool `json:"hasPts"`
	Open     bool `json:"open"`
	FrontNil bool `json:"frontNil"`
	BackNil  bool `json:"backNil"`
	NFwd     int  `json:"nFwd"`
	NBack    int  `json:"nBack"`
	LinksOK  bool `json:"linksOK"`
	OpsOwned bool `json:"opsOwned"`
	Pts      Path `json:"pts"`
}

type SweepEv struct {
	Ev   string   `json:"ev"` // "Sweep"
	Chk  []string `json:"chk"`
	Ct   int      `json:"ct"`
	Fr   int      `json:"fr"`
	Subj Paths    `json:"subj"`
	Clip Paths    `json:"clip"`
	Open Paths    `json:"open"` // open subject lines (a third of the events)
	Tree bool     `json:"tree"` // executed through ExecutePolyTree64 (owners matter)

	Out     string `json:"out"`
	Ok      bool   `json:"ok"`
	Beams   []Beam `json:"beams"`
	Rings   []Ring `json:"rings"`
	Sol     Paths  `json:"sol"`
	Probes  []Pt   `json:"probes"`
	Hints   int    `json:"hints"`
	Nontriv bool   `json:"nontriv"`
}

func execSweep(r *rand.Rand, e *SweepEv) {
	e.Beams = []Beam{}
	e.Rings = []Ring{}
	e.Sol = Paths{}
	e.Ok = true
	e.Out = safeCall(func() {
		c := clipper.NewClipper64()
		me := clipper.VerifBase64(c)
		clipper.VerifSweepHook = func(obj any, y int64, ael []clipper.VerifEdge) {
			if obj != me {
				return
			}
			b := Beam{Y: y, Ael: []AelEdge{}, Xs: []Xing{}}
			for _, a := range ael {
				b.Ael = append(b.Ael, AelEdge{Bot: Pt{a.Bot.X, a.Bot.Y}, Top: Pt{a.Top.X, a.Top.Y}, Wdx: a.WindDx, Clip: a.IsClip,
					Open: a.IsOpen, Wc: a.WindCount, Wc2: a.WindCount2, Hot: a.Hot, Joined: a.Joined, Horiz: a.Horiz})
			}
			e.Beams = append(e.Beams, b)
		}
		clipper.VerifIntersectHook = func(obj any, pos int, left bool, pt clipper.Point64) {
			if obj != me || len(e.Beams) == 0 {
				return
			}
			b := &e.Beams[len(e.Beams)-1]
			b.Xs = append(b.Xs, Xing{Pos: pos + 1, Left: left, Pt: Pt{pt.X, pt.Y}})
		}
		clipper.VerifOutRecHook = func(obj any, recs []clipper.VerifOutRec) {
			if obj != me {
				return
			}
			for _, q := range recs {
				e.Rings = append(e.Rings, Ring{Idx: q.Idx, Owner: q.OwnerIdx, HasPts: q.HasPts, Open: q.IsOpen, FrontNil: q.FrontNil,
					BackNil: q.BackNil, NFwd: q.NFwd, NBack: q.NBack, LinksOK: q.LinksOK, OpsOwned: q.OpsOwned, Pts: nzp(from64(q.Pts))})
			}
		}
		defer func() { clipper.VerifSweepHook, clipper.VerifIntersectHook, clipper.VerifOutRecHook = nil, nil, nil }()
		c.AddPaths(toPaths64(e.Subj), clipper.Subject, false)
		if len(e.Open) > 0 {
			c.AddPaths(toPaths64(e.Open), clipper.Subject, true)
		}
		c.AddPaths(toPaths64(e.Clip), clipper.Clip, false)
		if e.Tree {
			t := clipper.NewPolyTree64()
			var o clipper.PathsD
			e.Ok = c.ExecutePolyTree64(clipper.ClipType(e.Ct), clipper.FillRule(e.Fr), t, &o)
			for _, n := range flattenT(t.PolyPathBase) {
				e.Sol = append(e.Sol, n.Poly)
			}
			return
		}
		var s clipper.Paths64
		e.Ok = c.Execute(clipper.ClipType(e.Ct), clipper.FillRule(e.Fr), &s)
		e.Sol = nz(fromPaths64(s))
	})
	// region probes: judged against the raw rings and the final solution alike
	raw := Paths{}
	for _, q := range e.Rings {
		if q.HasPts && !q.Open {
			raw = append(raw, q.Pts)
		}
	}
	farIn := func(p Pt) bool { return farClosed(p, e.Subj, 8) && farClosed(p, e.Clip, 8) }
	bad := func(p Pt) bool {
		if !farIn(p) {
			return false
		}
		ex := expected(e.Ct, e.Fr, e.Subj, e.Clip, p)
		return (wnPaths(p, raw) != 0) != ex || (wnPaths(p, e.Sol) != 0) != ex
	}
	cands := candidatePoints(r, []Paths{e.Subj, e.Clip, e.Sol}, 5)
	sel := selectProbes(r, cands, bad, farIn, 8, 16)
	e.Probes, e.Hints = sel.Probes, sel.Hints
	nx := 0
	for _, b := range e.Beams {
		nx += len(b.Xs)
	}
	e.Nontriv = len(e.Beams) >= 3 && nx > 0
}

func nzp(p Path) Path {
	if p == nil {
		return Path{}
	}
	return p
}

func driveSweep(r *rand.Rand, w *writer, n int) {
	for i := 0; i < n; i++ {
		var subj, clip Paths
		switch r.Intn(5) {
		case 0:
			subj, clip = genClosedSet(r, 0), genClosedSet(r, 0)
		case 1:
			subj, clip = genClosedSet(r, 1), genClosedSet(r, 1)
		case 2:
			subj, clip = genClosedSet(r, 2), genClosedSet(r, 2)
		case 3:
			subj, clip = genClosedSet(r, 6), genClosedSet(r, 7)
		default:
			subj, clip = genClosedSet(r, 8), genClosedSet(r, 2)
		}
		e := &SweepEv{Ev: "Sweep", Chk: chkFor("SWEEP"), Ct: 1 + r.Intn(4), Fr: r.Intn(4), Subj: subj, Clip: clip, Open: Paths{}, Tree: r.Intn(3) == 0}
		if r.Intn(3) == 0 {
			e.Open = genOpenSet(r)
			e.Ct = 1 + r.Intn(3) // open paths are not defined for Xor
		}
		execSweep(r, e)
		w.emit(e)
	}
}
