package main

import (
	"math/rand"

	clipper "github.com/bolom009/go-clipper2"
)

// SweepEv: the active edge list of every scan-beam of one engine execution (component machine Sweep.tla).
type AelEdge struct {
	Bot    Pt   `json:"bot"`
	Top    Pt   `json:"top"`
	Wdx    int  `json:"wdx"`
	Clip   bool `json:"clip"`
	Open   bool `json:"open"`
	Wc     int  `json:"wc"`
	Wc2    int  `json:"wc2"`
	Hot    bool `json:"hot"`
	Joined bool `json:"joined"`
	Horiz  bool `json:"horiz"`
}

type Beam struct {
	Y   int64     `json:"y"`
	Ael []AelEdge `json:"ael"`
}

type SweepEv struct {
	Ev   string   `json:"ev"` // "Sweep"
	Chk  []string `json:"chk"`
	Ct   int      `json:"ct"`
	Fr   int      `json:"fr"`
	Subj Paths    `json:"subj"`
	Clip Paths    `json:"clip"`

	Out     string `json:"out"`
	Ok      bool   `json:"ok"`
	Beams   []Beam `json:"beams"`
	Nontriv bool   `json:"nontriv"`
}

func execSweep(e *SweepEv) {
	e.Beams = []Beam{}
	e.Ok = true
	e.Out = safeCall(func() {
		c := clipper.NewClipper64()
		me := clipper.VerifBase64(c)
		clipper.VerifSweepHook = func(obj any, y int64, ael []clipper.VerifEdge) {
			if obj != me {
				return
			}
			b := Beam{Y: y, Ael: []AelEdge{}}
			for _, a := range ael {
				b.Ael = append(b.Ael, AelEdge{Bot: Pt{a.Bot.X, a.Bot.Y}, Top: Pt{a.Top.X, a.Top.Y}, Wdx: a.WindDx, Clip: a.IsClip,
					Open: a.IsOpen, Wc: a.WindCount, Wc2: a.WindCount2, Hot: a.Hot, Joined: a.Joined, Horiz: a.Horiz})
			}
			e.Beams = append(e.Beams, b)
		}
		defer func() { clipper.VerifSweepHook = nil }()
		c.AddPaths(toPaths64(e.Subj), clipper.Subject, false)
		c.AddPaths(toPaths64(e.Clip), clipper.Clip, false)
		var s clipper.Paths64
		e.Ok = c.Execute(clipper.ClipType(e.Ct), clipper.FillRule(e.Fr), &s)
	})
	e.Nontriv = len(e.Beams) >= 3
}

func driveSweep(r *rand.Rand, w *writer, n int) {
	for i := 0; i < n; i++ {
		var subj, clip Paths
		switch r.Intn(5) {
		case 0:
			subj, clip = genClosedSet(r, 0), genClosedSet(r, 0)
		case 1:
			subj, clip = genClosedSet(r, 1), genClosedSet(r, 1)
		case 2:
			subj, clip = genClosedSet(r, 2), genClosedSet(r, 2)
		case 3:
			subj, clip = genClosedSet(r, 6), genClosedSet(r, 7)
		default:
			subj, clip = genClosedSet(r, 8), genClosedSet(r, 2)
		}
		e := &SweepEv{Ev: "Sweep", Chk: chkFor("SWEEP"), Ct: 1 + r.Intn(4), Fr: r.Intn(4), Subj: subj, Clip: clip}
		execSweep(e)
		w.emit(e)
	}
}
