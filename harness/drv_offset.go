package main

import (
	"math"
	"math/big"
	"math/rand"

	clipper "github.com/bolom009/go-clipper2"
)

// InflateEv: polygon offsetting (C05) and open-path offsetting (C10).
type InflateEv struct {
	Ev     string   `json:"ev"` // "Inflate"
	Chk    []string `json:"chk"`
	Api    string   `json:"api"` // InflatePaths64 | ClipperOffset
	Paths  Paths    `json:"paths"`
	Delta4 int64    `json:"delta4"` // delta in quarter units
	Jt     int      `json:"jt"`
	Et     int      `json:"et"`
	Miter4 int64    `json:"miter4"` // miter limit in quarter units
	Arc4   int64    `json:"arc4"`   // arc tolerance in quarter units (0: library default)
	Split  int      `json:"split"`  // ClipperOffset: number of paths in the first AddPaths group (0: one group)

	Out      string `json:"out"`
	Ok       bool   `json:"ok"`
	Sol      Paths  `json:"sol"`
	Sol2Same bool   `json:"sol2same"`
	KV       MagVar `json:"kv"` // the same call with paths, delta and arc tolerance multiplied by k, mapped back to base units
	ArgsSame bool   `json:"argsSame"`
	Probes   []Pt   `json:"probes"`
	Hints    int    `json:"hints"`
	Nontriv  bool   `json:"nontriv"`
}

func callInflate(e *InflateEv) (Paths, string) {
	res, out := callInflateK(e, toPaths64(e.Paths), 1)
	return fromPaths64(res), out
}

// callInflateK: the call of the event with every length multiplied by k (k = 1: the call itself). For k > 1 the
// arc tolerance is always given explicitly (the default, a quarter unit, would not scale with the input).
func callInflateK(e *InflateEv, in clipper.Paths64, k float64) (clipper.Paths64, string) {
	var res clipper.Paths64
	delta := float64(e.Delta4) / 4 * k
	arc := float64(e.Arc4) / 4 * k
	if k > 1 && e.Arc4 == 0 {
		arc = 0.25 * k
	}
	out := safeCall(func() {
		if e.Api == "InflatePaths64" {
			opts := []clipper.InflateOption{clipper.WithMitterLimit(float64(e.Miter4) / 4)}
			if arc > 0 {
				opts = append(opts, clipper.WithArcTolerance(arc))
			}
			res = clipper.InflatePaths64(in, delta, clipper.JoinType(e.Jt), clipper.EndType(e.Et), opts...)
			return
		}
		co := clipper.NewClipperOffset(float64(e.Miter4)/4, arc, false, false)
		if e.Split > 0 && e.Split < len(in) {
			co.AddPaths(in[:e.Split], clipper.JoinType(e.Jt), clipper.EndType(e.Et))
			co.AddPaths(in[e.Split:], clipper.JoinType(e.Jt), clipper.EndType(e.Et))
		} else {
			co.AddPaths(in, clipper.JoinType(e.Jt), clipper.EndType(e.Et))
		}
		res = clipper.Paths64{{{X: 3, Y: 3}}}
		co.Execute64(delta, &res)
	})
	return res, out
}

// kTimes1000 returns the distance factor k of the property, as an upper enclosure times 1000.
func kTimes1000(e *InflateEv) int64 {
	k := int64(1000)
	switch e.Jt {
	case 1: // Square
		k = 1415
	case 0: // Miter
		k = max64(1415, (e.Miter4*1000+3)/4)
	}
	if e.Et == 3 { // square caps
		k = max64(k, 1415)
	}
	if e.Et == 1 && e.Jt != 3 { // joined: two-point pieces are stroked with square ends
		k = max64(k, 1415)
	}
	return k
}

func srcClosed(e *InflateEv) bool { return e.Et == 0 || e.Et == 1 }

// nearSrc: conservative "within r4/4 of the source set" (same formula as the spec's Near)
func nearSrc(e *InflateEv, p Pt, r4 int64) bool {
	if srcClosed(e) {
		return !farClosed(p, e.Paths, r4)
	}
	return !farOpen(p, e.Paths, r4)
}

func lenLB(dx, dy int64) int64 {
	a, b := max64(abs64(dx), abs64(dy)), min64(abs64(dx), abs64(dy))
	return max64(a, (7*(a+b))/10)
}

// sureStrip: p lies within r4/4 of segment ab measured along the normal, foot inside the segment (guaranteed)
func sureStrip(p, a, b Pt, r4 int64) bool {
	dx, dy := b[0]-a[0], b[1]-a[1]
	if dx == 0 && dy == 0 {
		return false
	}
	t := dot(p[0]-a[0], p[1]-a[1], dx, dy)
	if t < 0 || t > dot(dx, dy, dx, dy) {
		return false
	}
	return 4*abs64(cross(dx, dy, p[0]-a[0], p[1]-a[1])) <= r4*lenLB(dx, dy)
}

func stripDup(q Path, closed bool) Path {
	var out Path
	for i, p := range q {
		if i > 0 && p == q[i-1] {
			continue
		}
		out = append(out, p)
	}
	if closed && len(out) > 1 && out[len(out)-1] == out[0] {
		out = out[:len(out)-1]
	}
	return out
}

func inStrips(e *InflateEv, p Pt, r4 int64, side int64) bool {
	if r4 <= 0 {
		return false
	}
	tol4 := tol4Of(e)
	for _, q0 := range e.Paths {
		q := stripDup(q0, srcClosed(e))
		n := len(q)
		m := n - 1
		if srcClosed(e) {
			m = n
		}
		for i := 0; i < m; i++ {
			a, b := q[i], q[(i+1)%n]
			if !sureStrip(p, a, b, r4) {
				continue
			}
			// stay away from the segment ends (Butt caps, bevelled hairpins: boundary points)
			dx, dy := b[0]-a[0], b[1]-a[1]
			t := dot(p[0]-a[0], p[1]-a[1], dx, dy)
			l := lenUB(dx, dy)
			if 4*t < tol4*l || 4*(dot(dx, dy, dx, dy)-t) < tol4*l {
				continue
			}
			if side != 0 && sgn64(orient(a, b, p)) != side {
				continue
			}
			return true
		}
	}
	return false
}

// validSet: transliteration of the spec's ValidPolySet (generator precondition of C05)
func validSet(s Paths) bool { return validSetG(s, 0) }

func validSetG(s Paths, forceG int64) bool {
	if len(s) == 0 {
		return false
	}
	for _, q := range s {
		n := len(q)
		if n < 3 {
			return false
		}
		for i := 0; i < n; i++ {
			if q[i] == q[(i+1)%n] {
				return false
			}
			for j := i + 1; j < n; j++ {
				a, b, c, d := q[i], q[(i+1)%n], q[j], q[(j+1)%n]
				switch {
				case j == i+1:
					if onSeg(d, a, b) || onSeg(a, c, d) {
						return false
					}
				case i == 0 && j == n-1:
					if onSeg(c, a, b) || onSeg(b, c, d) {
						return false
					}
				default:
					if segsMeet(a, b, c, d) {
						return false
					}
				}
			}
		}
	}
	for k := range s {
		for m := k + 1; m < len(s); m++ {
			for i := range s[k] {
				for j := range s[m] {
					if segsMeet(s[k][i], s[k][(i+1)%len(s[k])], s[m][j], s[m][(j+1)%len(s[m])]) {
						return false
					}
				}
			}
		}
	}
	for _, g := range []int64{1, -1} {
		if forceG != 0 && g != forceG {
			continue
		}
		ok := true
		for k := range s {
			depth := 0
			for j := range s {
				if j != k && wnPath(s[k][0], s[j]) != 0 {
					depth++
				}
			}
			want := g
			if depth%2 == 1 {
				want = -g
			}
			if sgn64(area2(s[k])) != want {
				ok = false
			}
		}
		if ok {
			return true
		}
	}
	return false
}

func tol4Of(e *InflateEv) int64 {
	if e.Arc4 > 0 {
		return 8 + e.Arc4
	}
	return 9 // 2 + 0.25: the default arc tolerance (0.002 delta) stays far below a quarter unit here
}

func execInflate(r *rand.Rand, e *InflateEv) {
	p0 := clonePaths(e.Paths)
	sol, out := callInflate(e)
	e.Sol, e.Out, e.Ok = nz(sol), out, true
	e.ArgsSame = equalPaths(p0, e.Paths) && argsUnchanged()
	sol2, _ := callInflate(e)
	e.Sol2Same = equalPaths(sol, sol2)
	// magnitude: the same call with every length multiplied by k (power of two or general, 2^20..2^34: beyond,
	// Ellipse64's own step count for single points, pi sqrt(radius), reaches millions of vertices)
	{
		k := big.NewInt(1)
		if e.KV.K.S != 0 {
			k = big.NewInt(bigJToInt(e.KV.K)) // replay: the recorded factor
		} else if r.Intn(2) == 0 {
			k = big.NewInt(int64(1) << uint(20+r.Intn(15)))
		} else {
			k = big.NewInt(1000000 + r.Int63n(int64(1)<<34))
		}
		zero := [2]*big.Int{big.NewInt(0), big.NewInt(0)}
		kf, _ := new(big.Float).SetInt(k).Float64()
		rk, out := callInflateK(e, mapPaths(e.Paths, zero, k), kf)
		nv := 0
		for _, q := range rk {
			nv += len(q)
		}
		if nv > 4000 {
			// Ellipse64 chooses its own step count from the radius when the arc tolerance allows fewer than three
			// steps: a single point offset with a tiny delta becomes a 90 000-gon at this scale. The variant is
			// not recorded (kind "skip"); the specification accepts a skipped variant as it stands.
			e.KV = MagVar{Kind: "skip", T: [2]BigJ{bigJ64(0), bigJ64(0)}, K: bigJ(k), Out: out, Sol: BPaths{}, Q: Paths{}, QOk: true, A2: bigJ64(0)}
		} else {
			e.KV = MagVar{Kind: "k", T: [2]BigJ{bigJ64(0), bigJ64(0)}, K: bigJ(k), Out: out, Sol: paths64B(rk), A2: bigJ64(0)}
			e.KV.Q, e.KV.QOk = mapBack(rk, zero, k)
			e.KV.Q = nz(e.KV.Q)
		}
	}
	ad := abs64(e.Delta4)
	tol4 := tol4Of(e)
	k := kTimes1000(e)
	outer4 := (k*ad+999)/1000 + tol4
	polygon := e.Et == 0
	inSrc := func(p Pt) bool { return polygon && wnPaths(p, e.Paths) != 0 }
	// global orientation of a valid polygon set: sign of a depth-0 path
	gsign := int64(1)
	if polygon {
		for k, q := range e.Paths {
			depth := 0
			for j, o := range e.Paths {
				if j != k && len(q) > 0 && wnPath(q[0], o) != 0 {
					depth++
				}
			}
			if depth == 0 && area2(q) < 0 {
				gsign = -1
			}
		}
	}
	growSide, shrinkSide := int64(0), gsign
	if polygon {
		growSide = -gsign
	}
	bad := func(p Pt) bool {
		w := wnPaths(p, sol)
		in := w != 0
		if farClosed(p, sol, 8) && w != 0 && w != 1 && w != -1 {
			return true
		}
		if e.Delta4 > 0 || !polygon {
			if inSrc(p) && farClosed(p, e.Paths, 8) && !in {
				return true
			}
			if inStrips(e, p, ad-tol4, growSide) && !in {
				return true
			}
			if in && !inSrc(p) && !nearSrc(e, p, outer4) {
				return true
			}
		} else {
			if !inSrc(p) && farClosed(p, e.Paths, 8) && in {
				return true
			}
			if inStrips(e, p, ad-tol4, shrinkSide) && in {
				return true
			}
			if !in && inSrc(p) && !nearSrc(e, p, outer4) {
				return true
			}
		}
		return false
	}
	margin := outer4/4 + 4
	cands := candidatePoints(r, []Paths{e.Paths, sol}, margin)
	// points at characteristic normal offsets of every segment
	for _, q := range e.Paths {
		n := len(q)
		for i := 0; i < n; i++ {
			a, b := q[i], q[(i+1)%n]
			dx, dy := float64(b[0]-a[0]), float64(b[1]-a[1])
			l := math.Hypot(dx, dy)
			if l == 0 {
				continue
			}
			nx, ny := -dy/l, dx/l
			for _, f := range []float64{0.15, 0.5, 0.85} {
				fx, fy := float64(a[0])+f*dx, float64(a[1])+f*dy
				for _, d := range []float64{float64(ad-tol4)/4 - 0.6, float64(ad)/4 + 0.5, float64(outer4)/4 + 1.2} {
					if d <= 0 {
						continue
					}
					for _, s := range []float64{1, -1} {
						cands = append(cands, Pt{int64(math.Round(fx + s*d*nx)), int64(math.Round(fy + s*d*ny))})
					}
				}
			}
			// around the vertices (joins / caps)
			for t := 0; t < 8; t++ {
				an := float64(t) * math.Pi / 4
				for _, d := range []float64{float64(ad-tol4)/4 - 0.6, float64(outer4)/4 + 1.2} {
					if d > 0 {
						cands = append(cands, Pt{a[0] + int64(math.Round(d*math.Cos(an))), a[1] + int64(math.Round(d*math.Sin(an)))})
					}
				}
			}
		}
	}
	sel := selectProbes(r, cands, bad, nil, 12, nProbes)
	e.Probes, e.Hints = sel.Probes, sel.Hints
	in, outN := false, false
	for _, p := range e.Probes {
		if wnPaths(p, sol) != 0 {
			in = true
		} else {
			outN = true
		}
	}
	e.Nontriv = in && outN && ad >= 2
}

// validPolySet draws a simple polygon set: an outer boundary with 0..2 holes strictly inside, optionally an
// island in a hole; either global orientation.
func validPolySet(r *rand.Rand) Paths {
	for {
		if s := validPolySetTry(r); validSet(s) {
			return s
		}
	}
}

func validPolySetTry(r *rand.Rand) Paths {
	var s Paths
	rad := 20 + 60*r.Float64()
	cx, cy := int64(r.Intn(40)-20), int64(r.Intn(40)-20)
	outer := wobbly(r, cx, cy, rad, 4+r.Intn(8))
	s = append(s, outer)
	if r.Intn(2) == 0 {
		h := wobbly(r, cx+int64(r.Intn(7)-3), cy+int64(r.Intn(7)-3), rad*0.4, 3+r.Intn(6))
		rev(h)
		s = append(s, h)
		if r.Intn(3) == 0 {
			s = append(s, wobbly(r, cx, cy, rad*0.12, 3+r.Intn(4)))
		}
	}
	if r.Intn(3) == 0 { // a second, disjoint polygon
		s = append(s, wobbly(r, cx+int64(3*rad), cy+int64(r.Intn(20)), rad*0.7, 3+r.Intn(6)))
	}
	if r.Intn(2) == 0 {
		for _, q := range s {
			rev(q)
		}
	}
	return s
}

// wobbly: star-shaped (hence simple) polygon with radii between 0.6 and 1.0 of rad, counter-clockwise
func wobbly(r *rand.Rand, cx, cy int64, rad float64, n int) Path {
	p := make(Path, 0, n)
	ph := r.Float64() * 2 * math.Pi
	for i := 0; i < n; i++ {
		a := ph + 2*math.Pi*float64(i)/float64(n)
		rr := rad * (0.6 + 0.4*r.Float64())
		q := Pt{cx + int64(math.Round(rr*math.Cos(a))), cy + int64(math.Round(rr*math.Sin(a)))}
		if len(p) == 0 || p[len(p)-1] != q {
			p = append(p, q)
		}
	}
	return p
}

var deltaChoices = []int64{1, 2, 3, 6, 10, 16, 24, 40, 60, 100, 160}

func driveInflatePoly(r *rand.Rand, w *writer, n int) {
	for i := 0; i < n; i++ {
		e := &InflateEv{Ev: "Inflate", Chk: chkFor("C05"), Api: []string{"InflatePaths64", "ClipperOffset"}[r.Intn(2)],
			Paths: validPolySet(r), Jt: r.Intn(4), Et: 0, Miter4: []int64{4, 6, 8, 12, 20}[r.Intn(5)]}
		if r.Intn(3) == 0 {
			// any spelling of a ring: a vertex repeated, the first vertex repeated once or twice at the end
			for k := range e.Paths {
				q := e.Paths[k]
				if len(q) < 3 || r.Intn(2) == 0 {
					continue
				}
				switch r.Intn(3) {
				case 0:
					j := r.Intn(len(q))
					q = append(append(append(Path{}, q[:j+1]...), q[j]), q[j+1:]...)
				case 1:
					q = append(append(Path{}, q...), q[0])
				default:
					q = append(append(Path{}, q...), q[0], q[0])
				}
				e.Paths[k] = q
			}
		}
		if r.Intn(2) == 0 { // any order of the paths: holes before their outer boundary, islands first, ...
			r.Shuffle(len(e.Paths), func(a, b int) { e.Paths[a], e.Paths[b] = e.Paths[b], e.Paths[a] })
		}
		e.Delta4 = deltaChoices[r.Intn(len(deltaChoices))]
		if r.Intn(2) == 0 {
			e.Delta4 = -e.Delta4
		}
		if r.Intn(8) == 0 {
			e.Delta4 = []int64{0, 1, -1}[r.Intn(3)]
		}
		if e.Jt == 3 || r.Intn(4) == 0 {
			e.Arc4 = []int64{0, 1, 2, 4}[r.Intn(4)]
		}
		if e.Api == "ClipperOffset" {
			e.Split = r.Intn(3)
			if e.Split > 0 && e.Split < len(e.Paths) {
				clean := make(Paths, len(e.Paths)) // validity is judged on the rings without their repeated points
				for k, q := range e.Paths {
					var c Path
					for _, v := range q {
						if len(c) == 0 || c[len(c)-1] != v {
							c = append(c, v)
						}
					}
					for len(c) > 1 && c[len(c)-1] == c[0] {
						c = c[:len(c)-1]
					}
					clean[k] = c
				}
				g := int64(1)
				if !validSetG(clean, 1) {
					g = -1
				}
				if !(validSetG(clean[:e.Split], g) && validSetG(clean[e.Split:], g)) {
					e.Split = 0 // every group must be a valid polygon set of the same orientation on its own
				}
			}
		}
		execInflate(r, e)
		w.emit(e)
	}
}

func driveInflateOpen(r *rand.Rand, w *writer, n int) {
	for i := 0; i < n; i++ {
		var paths Paths
		np := 1 + r.Intn(2)
		for j := 0; j < np; j++ {
			k := 1 + r.Intn(6)
			if r.Intn(4) == 0 {
				k = 1 + r.Intn(2)
			}
			q := make(Path, 0, k)
			cur := Pt{int64(r.Intn(120) - 60 + 200*j), int64(r.Intn(120) - 60)}
			for t := 0; t < k; t++ {
				q = append(q, cur)
				switch r.Intn(6) {
				case 0: // duplicate
				case 1: // collinear continuation
					cur = Pt{cur[0] + 12, cur[1] + 5}
				default:
					cur = Pt{cur[0] + int64(r.Intn(81)-40), cur[1] + int64(r.Intn(81)-40)}
				}
			}
			if len(q) >= 3 && r.Intn(5) == 0 { // a loop drawn as a polyline: the first point repeated at the end
				q = append(q, q[0])
			}
			paths = append(paths, q)
		}
		e := &InflateEv{Ev: "Inflate", Chk: chkFor("C10"), Api: []string{"InflatePaths64", "ClipperOffset"}[r.Intn(2)],
			Paths: paths, Jt: r.Intn(4), Et: 1 + r.Intn(4), Miter4: []int64{4, 8, 12}[r.Intn(3)]}
		e.Delta4 = []int64{2, 3, 6, 10, 16, 24, 40, 60}[r.Intn(8)]
		if e.Jt == 3 || e.Et == 4 || r.Intn(4) == 0 {
			e.Arc4 = []int64{0, 1, 2, 4}[r.Intn(4)]
		}
		execInflate(r, e)
		w.emit(e)
	}
}
