package main

import (
	"math/rand"

	clipper "github.com/bolom009/go-clipper2"
)

// ---------------------------------------------------------------- C04 PolyTree

type TNode struct {
	Parent int  `json:"parent"` // 0 = root, else 1-based index
	Poly   Path `json:"poly"`
	IsHole bool `json:"isHole"`
	Level  int  `json:"level"`
}

type TreeEv struct {
	Ev   string   `json:"ev"` // "TreeOp"
	Chk  []string `json:"chk"`
	Api  string   `json:"api"`
	Ct   int      `json:"ct"`
	Fr   int      `json:"fr"`
	Subj Paths    `json:"subj"`
	Clip Paths    `json:"clip"`
	K    int64    `json:"k"` // scale of the result units relative to the inputs (100 for the D variants)

	Out      string  `json:"out"`
	Ok       bool    `json:"ok"`
	Flat     Paths   `json:"flat"`
	Tree     []TNode `json:"tree"`
	ArgsSame bool    `json:"argsSame"`
	Probes   []Pt    `json:"probes"`
	Hints    int     `json:"hints"`
	Nontriv  bool    `json:"nontriv"`
}

func flattenT(root *clipper.PolyPathBase) []TNode {
	out := []TNode{}
	var rec func(n *clipper.PolyPathBase, parent int)
	rec = func(n *clipper.PolyPathBase, parent int) {
		for _, ch := range n.GetChildren() {
			out = append(out, TNode{Parent: parent, Poly: from64(ch.Polygon()), IsHole: ch.IsHole(), Level: ch.Level()})
			rec(ch, len(out))
		}
	}
	rec(root, 0)
	return out
}

var treeApis = []string{"BooleanOpPolyTree64", "Engine64Tree", "BooleanOpPolyTreeD", "EngineDTree"}

func execTree(r *rand.Rand, e *TreeEv) {
	s0, c0 := clonePaths(e.Subj), clonePaths(e.Clip)
	ct, fr := clipper.ClipType(e.Ct), clipper.FillRule(e.Fr)
	e.Ok = true
	if e.Api != "BooleanOpPolyTreeD" {
		e.K = 1
	}
	e.Out = safeCall(func() {
		switch e.Api {
		case "BooleanOpPolyTree64":
			t := clipper.BooleanOpPolyTree64(ct, toPaths64(e.Subj), toPaths64(e.Clip), fr)
			e.Tree = flattenT(t.PolyPathBase)
			e.Flat = fromPaths64(clipper.BooleanOpPaths64(ct, toPaths64(e.Subj), toPaths64(e.Clip), fr))
		case "Engine64Tree":
			c := clipper.NewClipper64()
			c.AddPaths(toPaths64(e.Subj), clipper.Subject, false)
			c.AddPaths(toPaths64(e.Clip), clipper.Clip, false)
			t := clipper.NewPolyTree64()
			var o clipper.PathsD
			e.Ok = c.ExecutePolyTree64(ct, fr, t, &o)
			e.Tree = flattenT(t.PolyPathBase)
			f := clipper.NewClipper64()
			f.AddPaths(toPaths64(e.Subj), clipper.Subject, false)
			f.AddPaths(toPaths64(e.Clip), clipper.Clip, false)
			var s clipper.Paths64
			f.Execute(ct, fr, &s)
			e.Flat = fromPaths64(s)
		case "BooleanOpPolyTreeD":
			// precision 0, 1 or 2 (recorded as the result unit K = 10^precision; replay re-uses it)
			if e.K != 1 && e.K != 10 && e.K != 100 {
				e.K = []int64{1, 10, 100}[r.Intn(3)]
			}
			prec := map[int64]int{1: 0, 10: 1, 100: 2}[e.K]
			t := clipper.BooleanOpPolyTreeD(ct, toPathsD(e.Subj), toPathsD(e.Clip), fr, prec)
			e.Tree = flattenT(t.PolyPathBase)
			e.Flat = fromPathsDScaled(clipper.BooleanOpPathsD(ct, toPathsD(e.Subj), toPathsD(e.Clip), fr, prec), float64(e.K))
		default:
			e.K = 100
			c := clipper.NewClipperD(2)
			c.AddPaths(toPathsD(e.Subj), clipper.Subject, false)
			c.AddPaths(toPathsD(e.Clip), clipper.Clip, false)
			t := clipper.NewPolyTreeD()
			var o clipper.PathsD
			e.Ok = c.ExecutePolyTreeD(ct, fr, t, &o)
			e.Tree = flattenT(t.PolyPathBase)
			f := clipper.NewClipperD(2)
			f.AddPaths(toPathsD(e.Subj), clipper.Subject, false)
			f.AddPaths(toPathsD(e.Clip), clipper.Clip, false)
			var s clipper.PathsD
			f.Execute(ct, fr, &s)
			e.Flat = fromPathsDScaled(s, 100)
		}
	})
	e.Flat = nz(e.Flat)
	if e.Tree == nil {
		e.Tree = []TNode{}
	}
	e.ArgsSame = equalPaths(s0, e.Subj) && equalPaths(c0, e.Clip) && argsUnchanged()
	polys := Paths{}
	for _, n := range e.Tree {
		polys = append(polys, n.Poly)
	}
	far := func(p Pt) bool { return farClosed(p, polys, 8) }
	// hint: a point inside a child but outside its parent, or inside two siblings
	bad := func(p Pt) bool {
		if !far(p) {
			return false
		}
		for i, n := range e.Tree {
			if wnPath(p, n.Poly) == 0 {
				continue
			}
			if n.Parent > 0 && wnPath(p, e.Tree[n.Parent-1].Poly) == 0 {
				return true
			}
			for j, m := range e.Tree {
				if j != i && m.Parent == n.Parent && wnPath(p, m.Poly) != 0 {
					return true
				}
			}
		}
		return false
	}
	cands := candidatePoints(r, []Paths{polys}, 5)
	sel := selectProbes(r, cands, bad, far, 10, nProbes)
	e.Probes, e.Hints = sel.Probes, sel.Hints
	depth := 0
	for _, n := range e.Tree {
		if n.Level > depth {
			depth = n.Level
		}
	}
	e.Nontriv = depth >= 2
}

// tiledRing: a rectangular ring assembled from edge-abutting (or corner-overlapping) bars, so that the hole
// of the union only comes into being through joins / splits during the sweep
func tiledRing(r *rand.Rand, x0, y0, x1, y1, t int64) Paths {
	overlap := r.Intn(3) == 0
	var s Paths
	if overlap {
		s = Paths{rectPath(x0, y0, x1, y0+t, true), rectPath(x0, y1-t, x1, y1, true),
			rectPath(x0, y0, x0+t, y1, true), rectPath(x1-t, y0, x1, y1, true)}
	} else {
		s = Paths{rectPath(x0, y0, x1, y0+t, true), rectPath(x0, y1-t, x1, y1, true),
			rectPath(x0, y0+t, x0+t, y1-t, true), rectPath(x1-t, y0+t, x1, y1-t, true)}
	}
	if r.Intn(3) == 0 { // split one bar in two abutting halves
		m := (x0 + x1) / 2
		s[0] = rectPath(x0, y0, m, y0+t, true)
		s = append(s, rectPath(m, y0, x1, y0+t, true))
	}
	r.Shuffle(len(s), func(i, j int) { s[i], s[j] = s[j], s[i] })
	return s
}

func genTreeInput(r *rand.Rand) (Paths, Paths) {
	switch r.Intn(6) {
	case 5: // tiled rings with islands (and rings inside rings)
		t := int64(8)
		s := tiledRing(r, 0, 0, 96, 96, t)
		switch r.Intn(3) {
		case 0:
			s = append(s, rectPath(32, 32, 56, 56, r.Intn(2) == 0))
		case 1:
			s = append(s, tiledRing(r, 24, 24, 72, 72, t)...)
			s = append(s, rectPath(40, 40, 56, 56, true))
		default:
			s = append(s, rectPath(16, 16, 40, 40, true), rectPath(56, 48, 80, 80, true))
		}
		var c Paths
		if r.Intn(2) == 0 {
			c = Paths{rectPath(int64(r.Intn(6))*8, int64(r.Intn(6))*8, int64(6+r.Intn(6))*8, int64(6+r.Intn(6))*8, true)}
		} else {
			c = Paths{}
		}
		return s, c
	case 0: // deep nesting
		s := nestedRings(r, int64(r.Intn(10)), int64(r.Intn(10)), 30+50*r.Float64(), 3+r.Intn(4))
		c := nestedRings(r, int64(r.Intn(30)), int64(r.Intn(30)), 20+50*r.Float64(), 1+r.Intn(4))
		return s, c
	case 1: // rectangles on a coarse grid: touching, splits, horizontal joins
		return genClosedSet(r, 7), genClosedSet(r, 7)
	case 2:
		return genClosedSet(r, 6), genClosedSet(r, 7)
	default:
		s, c, _ := genBoolInput(r)
		return s, nz(c)
	}
}

// genNotchInput: a square with a V-notch in one side and a polygon whose vertices lie exactly on the two notch sides
// (lattice points of the sides) plus one vertex inside or outside the notch: separate polygons that touch in more
// than a point, where containment is decided by the equivocal-vertex fall-back; mirrored / transposed at random
func genNotchInput(r *rand.Rand) (Paths, Paths) {
	t1, t2 := int64(1+r.Intn(15)), int64(1+r.Intn(15))
	q := Path{{0, 0}, {96, 0}, {64, 48}, {96, 96}, {0, 96}}
	apex := Pt{int64(72 + 8*r.Intn(10)), int64(24 + 8*r.Intn(7))}
	p := Path{{96 - 2*t1, 3 * t1}, apex, {96 - 2*t2, 96 - 3*t2}}
	if r.Intn(4) == 0 { // a fourth vertex on a notch side as well
		t3 := int64(1 + r.Intn(15))
		if t3 != t2 {
			p = append(p, Pt{96 - 2*t3, 96 - 3*t3})
		}
	}
	fx, tr := r.Intn(2) == 0, r.Intn(2) == 0
	m := func(a Path, rev bool) Path {
		o := make(Path, len(a))
		for i, v := range a {
			x, y := v[0], v[1]
			if fx {
				x = 96 - x
			}
			if tr {
				x, y = y, x
			}
			o[i] = Pt{x, y}
		}
		if rev {
			for i, j := 0, len(o)-1; i < j; i, j = i+1, j-1 {
				o[i], o[j] = o[j], o[i]
			}
		}
		return o
	}
	rev := r.Intn(2) == 0
	if r.Intn(2) == 0 {
		return Paths{m(q, rev), m(p, rev)}, Paths{}
	}
	return Paths{m(q, rev)}, Paths{m(p, rev)}
}

func driveTree(r *rand.Rand, w *writer, n int) {
	for i := 0; i < n; i++ {
		subj, clip := genTreeInput(r)
		if i%12 == 5 {
			subj, clip = genNotchInput(r)
		}
		e := &TreeEv{Ev: "TreeOp", Chk: chkFor("C04"), Api: treeApis[r.Intn(4)], Ct: 1 + r.Intn(4), Fr: r.Intn(4), Subj: subj, Clip: clip}
		if e.K == 0 {
			// keep D inputs small enough for the native instance after scaling by 100
			if e.Api == "BooleanOpPolyTreeD" || e.Api == "EngineDTree" {
				if b, ok := boundsOf(subj, clip); ok && (abs64(b.x0) > 80 || abs64(b.x1) > 80 || abs64(b.y0) > 80 || abs64(b.y1) > 80) {
					e.Api = treeApis[r.Intn(2)]
				}
			}
		}
		execTree(r, e)
		w.emit(e)
	}
}

// ---------------------------------------------------------------- C09 open subject paths

type OpenEv struct {
	Ev   string   `json:"ev"` // "OpenOp"
	Chk  []string `json:"chk"`
	Api  string   `json:"api"` // Engine64OC | EngineDOC | Engine64Tree
	Ct   int      `json:"ct"`
	Fr   int      `json:"fr"`
	Subj Paths    `json:"subj"` // closed subjects
	Open Paths    `json:"open"` // open subjects (vertices on multiples of 8)
	Clip Paths    `json:"clip"`
	K    int64    `json:"k"` // result units per input unit (10 for the D engine at precision 1)

	Out       string  `json:"out"`
	Ok        bool    `json:"ok"`
	Sol       Paths   `json:"sol"`
	SolOpen   Paths   `json:"solOpen"`
	Tree      []TNode `json:"tree"`
	SolClosed Paths   `json:"solClosed"` // closed solution of the same call made without the open paths
	ArgsSame  bool    `json:"argsSame"`
	Probes    []Pt    `json:"probes"`   // region probes (closed solution)
	OnProbes  []Pt    `json:"onProbes"` // points on the open subject lines
	Hints     int     `json:"hints"`
	Nontriv   bool    `json:"nontriv"`
}

func execOpen(r *rand.Rand, e *OpenEv) {
	s0, o0, c0 := clonePaths(e.Subj), clonePaths(e.Open), clonePaths(e.Clip)
	ct, fr := clipper.ClipType(e.Ct), clipper.FillRule(e.Fr)
	e.Ok, e.K = true, 1
	e.Tree = []TNode{}
	e.Out = safeCall(func() {
		switch e.Api {
		case "EngineDOC":
			e.K = 10
			c := clipper.NewClipperD(1) // precision 1: results are logged in tenths
			c.AddPaths(toPathsD(e.Subj), clipper.Subject, false)
			c.AddPaths(toPathsD(e.Open), clipper.Subject, true)
			c.AddPaths(toPathsD(e.Clip), clipper.Clip, false)
			var s, o clipper.PathsD
			e.Ok = c.ExecuteOC(ct, fr, &s, &o)
			e.Sol, e.SolOpen = fromPathsDScaled(s, 10), fromPathsDScaled(o, 10)
		case "EngineDTree":
			e.K = 10
			c := clipper.NewClipperD(1)
			c.AddPaths(toPathsD(e.Subj), clipper.Subject, false)
			c.AddPaths(toPathsD(e.Open), clipper.Subject, true)
			c.AddPaths(toPathsD(e.Clip), clipper.Clip, false)
			t := clipper.NewPolyTreeD()
			var o clipper.PathsD
			e.Ok = c.ExecutePolyTreeD(ct, fr, t, &o)
			e.Tree = flattenT(t.PolyPathBase) // tree polygons are in scaled integer units already
			e.SolOpen = fromPathsDScaled(o, 10)
			e.Sol = Paths{}
			for _, n := range e.Tree {
				e.Sol = append(e.Sol, n.Poly)
			}
		case "Engine64Tree":
			c := clipper.NewClipper64()
			c.AddPaths(toPaths64(e.Subj), clipper.Subject, false)
			c.AddPaths(toPaths64(e.Open), clipper.Subject, true)
			c.AddPaths(toPaths64(e.Clip), clipper.Clip, false)
			t := clipper.NewPolyTree64()
			var o clipper.PathsD
			e.Ok = c.ExecutePolyTree64(ct, fr, t, &o)
			e.Tree = flattenT(t.PolyPathBase)
			e.SolOpen = fromPathsDScaled(o, 1)
			e.Sol = Paths{}
			for _, n := range e.Tree {
				e.Sol = append(e.Sol, n.Poly)
			}
		default:
			c := clipper.NewClipper64()
			c.AddPaths(toPaths64(e.Subj), clipper.Subject, false)
			c.AddPaths(toPaths64(e.Open), clipper.Subject, true)
			c.AddPaths(toPaths64(e.Clip), clipper.Clip, false)
			var s, o clipper.Paths64
			e.Ok = c.ExecuteOC(ct, fr, &s, &o)
			e.Sol, e.SolOpen = fromPaths64(s), fromPaths64(o)
		}
	})
	e.Sol, e.SolOpen = nz(e.Sol), nz(e.SolOpen)
	// the same call without the open paths ("open paths never appear in, or alter, the closed solution")
	e.SolClosed = Paths{}
	safeCall(func() {
		switch e.Api {
		case "EngineDOC":
			c := clipper.NewClipperD(1)
			c.AddPaths(toPathsD(e.Subj), clipper.Subject, false)
			c.AddPaths(toPathsD(e.Clip), clipper.Clip, false)
			var s, o clipper.PathsD
			c.ExecuteOC(ct, fr, &s, &o)
			e.SolClosed = nz(fromPathsDScaled(s, 10))
		case "EngineDTree":
			c := clipper.NewClipperD(1)
			c.AddPaths(toPathsD(e.Subj), clipper.Subject, false)
			c.AddPaths(toPathsD(e.Clip), clipper.Clip, false)
			t := clipper.NewPolyTreeD()
			var o clipper.PathsD
			c.ExecutePolyTreeD(ct, fr, t, &o)
			for _, n := range flattenT(t.PolyPathBase) {
				e.SolClosed = append(e.SolClosed, n.Poly)
			}
		case "Engine64Tree":
			c := clipper.NewClipper64()
			c.AddPaths(toPaths64(e.Subj), clipper.Subject, false)
			c.AddPaths(toPaths64(e.Clip), clipper.Clip, false)
			t := clipper.NewPolyTree64()
			var o clipper.PathsD
			c.ExecutePolyTree64(ct, fr, t, &o)
			for _, n := range flattenT(t.PolyPathBase) {
				e.SolClosed = append(e.SolClosed, n.Poly)
			}
		default:
			c := clipper.NewClipper64()
			c.AddPaths(toPaths64(e.Subj), clipper.Subject, false)
			c.AddPaths(toPaths64(e.Clip), clipper.Clip, false)
			var s, o clipper.Paths64
			c.ExecuteOC(ct, fr, &s, &o)
			e.SolClosed = nz(fromPaths64(s))
		}
	})
	e.ArgsSame = equalPaths(s0, e.Subj) && equalPaths(o0, e.Open) && equalPaths(c0, e.Clip) && argsUnchanged()
	// everything below in result units
	subj, open, clip := scalePaths(e.Subj, e.K), scalePaths(e.Open, e.K), scalePaths(e.Clip, e.K)
	farIn := func(p Pt) bool { return farClosed(p, subj, 8) && farClosed(p, clip, 8) }
	badR := func(p Pt) bool {
		return farIn(p) && (wnPaths(p, e.Sol) != 0) != expected(e.Ct, e.Fr, subj, clip, p)
	}
	cands := candidatePoints(r, []Paths{subj, clip, e.Sol}, 5)
	sel := selectProbes(r, cands, badR, farIn, 8, nProbes/2)
	e.Probes, e.Hints = sel.Probes, sel.Hints
	// on-line probes
	var on []Pt
	for _, q := range open {
		for i := 0; i+1 < len(q); i++ {
			a, b := q[i], q[i+1]
			if a == b || (b[0]-a[0])%8 != 0 || (b[1]-a[1])%8 != 0 {
				continue
			}
			for k := int64(0); k <= 8; k++ {
				on = append(on, Pt{a[0] + (b[0]-a[0])*k/8, a[1] + (b[1]-a[1])*k/8})
			}
		}
	}
	exp := func(p Pt) bool {
		inS, inC := fill(e.Fr, wnPaths(p, subj)), fill(e.Fr, wnPaths(p, clip))
		switch e.Ct {
		case 1:
			return inC
		case 2:
			return !inS && !inC
		default:
			return !inC
		}
	}
	badO := func(p Pt) bool {
		if !farIn(p) {
			return false
		}
		if exp(p) {
			return farOpen(p, e.SolOpen, 12)
		}
		return !farOpen(p, e.SolOpen, 2)
	}
	e.OnProbes = []Pt{}
	if len(on) > 0 {
		so := selectProbes(r, on, badO, farIn, 10, nProbes/2)
		e.OnProbes = so.Probes
		e.Hints += so.Hints
	}
	in, out := false, false
	for _, p := range e.OnProbes {
		if farIn(p) {
			if exp(p) {
				in = true
			} else {
				out = true
			}
		}
	}
	e.Nontriv = in && out
}

var openApis = []string{"Engine64OC", "Engine64OC", "EngineDOC", "Engine64Tree", "EngineDTree"}

func driveOpen(r *rand.Rand, w *writer, n int) {
	for i := 0; i < n; i++ {
		var subj, clip Paths
		switch r.Intn(3) {
		case 0:
			subj = Paths{}
		default:
			subj = genClosedSet(r, []int{0, 1, 7, 6}[r.Intn(4)])
		}
		clip = genClosedSet(r, []int{0, 1, 7, 6, 2}[r.Intn(5)])
		open := genOpenSet(r)
		if r.Intn(3) == 0 {
			// an end of a line that is a horizontal (vertical) stretch of two or more segments: an extra collinear
			// vertex, or the line doubling back on itself, stopping anywhere (inside or short of the clip region)
			k := r.Intn(len(open))
			q := open[k]
			tail := func(p Pt) Path {
				d1, d2 := int64(1+r.Intn(6))*8, int64(1+r.Intn(6))*8
				if r.Intn(2) == 0 {
					d1 = -d1
				}
				if r.Intn(3) == 0 {
					d2 = -d2 / 2 // doubling back
				} else if d1 < 0 {
					d2 = -d2
				}
				if r.Intn(4) == 0 { // vertical
					return Path{{p[0], p[1] + d1}, {p[0], p[1] + d1 + d2}}
				}
				return Path{{p[0] + d1, p[1]}, {p[0] + d1 + d2, p[1]}}
			}
			if len(q) > 0 {
				if r.Intn(2) == 0 {
					q = append(q, tail(q[len(q)-1])...)
				} else {
					t := tail(q[0])
					q = append(Path{t[1], t[0]}, q...)
				}
				open[k] = q
			}
		}
		if r.Intn(3) == 0 { // start / end on clip vertices
			if len(clip) > 0 && len(clip[0]) > 0 && len(open) > 0 && len(open[0]) > 0 {
				open[0][0] = clip[0][r.Intn(len(clip[0]))]
			}
		}
		e := &OpenEv{Ev: "OpenOp", Chk: chkFor("C09"), Api: openApis[r.Intn(len(openApis))], Ct: 1 + r.Intn(3), Fr: r.Intn(4),
			Subj: subj, Open: open, Clip: clip}
		execOpen(r, e)
		w.emit(e)
	}
}
