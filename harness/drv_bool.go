package main

import (
	"math/rand"

	clipper "github.com/bolom009/go-clipper2"
)

// BoolEv: one closed-path boolean operation through one of the public entry points.
type BoolEv struct {
	Ev      string   `json:"ev"`  // "BooleanOp"
	Chk     []string `json:"chk"` // clauses the trace action must check
	Api     string   `json:"api"`
	Ct      int      `json:"ct"`
	Fr      int      `json:"fr"`
	Subj    Paths    `json:"subj"`
	Clip    Paths    `json:"clip"`
	ClipNil bool     `json:"clipNil"`
	Pc      bool     `json:"pc"`  // preserveCollinear
	Rev     bool     `json:"rev"` // reverseSolution
	Split   int      `json:"split"`

	Out      string `json:"out"`
	Ok       bool   `json:"ok"`
	Sol      Paths  `json:"sol"`
	Sol2Same bool   `json:"sol2same"` // second identical call returned the identical sequence
	ArgsSame bool   `json:"argsSame"`
	Probes   []Pt   `json:"probes"`
	Gexp     []int  `json:"gexp"` // transliteration's view per probe: 0/1 expected, 2 in band
	Hints    int    `json:"hints"`
	Nontriv  bool   `json:"nontriv"`
	Uni      Paths  `json:"uni"` // C02: Union(sol) under NonZero
}

var boolApis = []string{"BooleanOpPaths64", "Wrapper64", "Engine64", "Engine64OC"}

// callBool runs one boolean operation through the chosen API.
func callBool(e *BoolEv) (sol Paths, ok bool, out string) {
	subj, clip := toPaths64(e.Subj), toPaths64(e.Clip)
	if e.ClipNil {
		clip = nil
	}
	ct, fr := clipper.ClipType(e.Ct), clipper.FillRule(e.Fr)
	var res clipper.Paths64
	ok = true
	out = safeCall(func() {
		switch e.Api {
		case "BooleanOpPaths64":
			res = clipper.BooleanOpPaths64(ct, subj, clip, fr)
		case "Wrapper64":
			switch e.Ct {
			case 1:
				res = clipper.IntersectWithClipPaths64(subj, clip, fr)
			case 2:
				if clip == nil {
					res = clipper.UnionPaths64(subj, fr)
				} else {
					res = clipper.UnionWithClipPaths64(subj, clip, fr)
				}
			case 3:
				res = clipper.DifferenceWithClipPaths64(subj, clip, fr)
			case 4:
				res = clipper.XorWithClipPaths64(subj, clip, fr)
			default:
				res = clipper.BooleanOpPaths64(ct, subj, clip, fr)
			}
		default: // engine forms
			c := clipper.NewClipper64()
			if !e.Pc || e.Rev {
				clipper.VerifSetOptions64(c, e.Pc, e.Rev)
			}
			k := e.Split
			if k > 0 && k < len(subj) {
				c.AddPaths(subj[:k], clipper.Subject, false)
				c.AddPaths(subj[k:], clipper.Subject, false)
			} else {
				c.AddPaths(subj, clipper.Subject, false)
			}
			if clip != nil {
				c.AddPaths(clip, clipper.Clip, false)
			}
			res = clipper.Paths64{{{X: 9, Y: 9}}} // junk that must be replaced
			if e.Api == "Engine64OC" {
				open := clipper.Paths64{}
				ok = c.ExecuteOC(ct, fr, &res, &open)
			} else {
				ok = c.Execute(ct, fr, &res)
			}
		}
	})
	return fromPaths64(res), ok, out
}

func execBool(r *rand.Rand, e *BoolEv) {
	s0, c0 := clonePaths(e.Subj), clonePaths(e.Clip)
	sol, ok, out := callBool(e)
	e.Sol, e.Ok, e.Out = nz(sol), ok, out
	e.ArgsSame = equalPaths(s0, e.Subj) && equalPaths(c0, e.Clip) && argsUnchanged()
	sol2, _, _ := callBool(e)
	e.Sol2Same = equalPaths(sol, sol2)
	if has(e.Chk, "UNI") {
		var u clipper.Paths64
		safeCall(func() { u = clipper.BooleanOpPaths64(clipper.Union, toPaths64(sol), nil, clipper.NonZero) })
		e.Uni = nz(fromPaths64(u))
	} else {
		e.Uni = Paths{}
	}
	clip := e.Clip
	if e.ClipNil {
		clip = nil
	}
	// probes: hints where the transliterated C01/C02 postcondition fails
	farIn := func(p Pt) bool { return farClosed(p, e.Subj, 8) && farClosed(p, clip, 8) }
	bad := func(p Pt) bool {
		w := wnPaths(p, sol)
		if farIn(p) && (w != 0) != expected(e.Ct, e.Fr, e.Subj, clip, p) {
			return true
		}
		if farClosed(p, sol, 8) {
			if (!e.Rev && w != 0 && w != 1) || (e.Rev && w != 0 && w != -1) {
				return true
			}
		}
		return false
	}
	cands := candidatePoints(r, []Paths{e.Subj, clip, sol}, 5)
	sel := selectProbes(r, cands, bad, farIn, 12, nProbes)
	e.Probes, e.Hints = sel.Probes, sel.Hints
	e.Gexp = make([]int, len(e.Probes))
	seen := [2]bool{}
	for i, p := range e.Probes {
		if !farIn(p) {
			e.Gexp[i] = 2
			continue
		}
		if expected(e.Ct, e.Fr, e.Subj, clip, p) {
			e.Gexp[i] = 1
			seen[1] = true
		} else {
			seen[0] = true
		}
	}
	e.Nontriv = seen[0] && seen[1]
	if e.ClipNil {
		e.Clip = Paths{}
	}
}

var nProbes = 48

func has(s []string, x string) bool {
	for _, y := range s {
		if y == x {
			return true
		}
	}
	return false
}

// genBoolInput draws subject and clip sets; clip may be absent.
func genBoolInput(r *rand.Rand) (subj, clip Paths, clipNil bool) {
	fam := r.Intn(nClosedFams)
	subj = genClosedSet(r, fam)
	switch r.Intn(6) {
	case 0:
		return subj, Paths{}, true
	case 1:
		clip = genClosedSet(r, r.Intn(nClosedFams))
	default:
		clip = genClosedSet(r, fam)
	}
	return subj, clip, false
}

func driveBool(r *rand.Rand, w *writer, n int, chk []string) {
	for i := 0; i < n; i++ {
		subj, clip, cn := genBoolInput(r)
		e := &BoolEv{Ev: "BooleanOp", Chk: chkFor(chk...), Api: boolApis[r.Intn(len(boolApis))],
			Ct: 1 + r.Intn(4), Fr: r.Intn(4), Subj: subj, Clip: clip, ClipNil: cn, Pc: true}
		if has(chk, "C02") {
			e.Pc, e.Rev = r.Intn(2) == 0, r.Intn(3) == 0
			if !e.Pc || e.Rev {
				e.Api = boolApis[2+r.Intn(2)]
			}
		}
		if e.Api == "Engine64" || e.Api == "Engine64OC" {
			e.Split = r.Intn(3)
		}
		execBool(r, e)
		w.emit(e)
	}
}
