package main

import (
	"math/rand"
)

// Probe selection. Coverage only: TLC decides the band predicate and the expected
// value for every probe it is given; here we merely choose where it looks.
// "bad(p)" is the transliterated postcondition failing at p (a hint).

type probeSel struct {
	Probes []Pt
	Hints  int
}

func candidatePoints(r *rand.Rand, sets []Paths, margin int64) []Pt {
	b, ok := boundsOf(sets...)
	if !ok {
		return []Pt{{0, 0}, {3, 3}, {-5, 7}}
	}
	b.x0 -= margin
	b.y0 -= margin
	b.x1 += margin
	b.y1 += margin
	w, h := b.x1-b.x0+1, b.y1-b.y0+1
	var c []Pt
	if w*h <= 12000 {
		for y := b.y0; y <= b.y1; y++ {
			for x := b.x0; x <= b.x1; x++ {
				c = append(c, Pt{x, y})
			}
		}
		return c
	}
	// systematic grid (jittered)
	const g = 48
	for i := 0; i < g; i++ {
		for j := 0; j < g; j++ {
			x := b.x0 + (w*int64(2*i+1))/(2*g) + int64(r.Intn(3)-1)
			y := b.y0 + (h*int64(2*j+1))/(2*g) + int64(r.Intn(3)-1)
			c = append(c, Pt{x, y})
		}
	}
	// points adjacent to every edge and vertex, on both sides
	for _, s := range sets {
		for _, q := range s {
			n := len(q)
			for i := 0; i < n; i++ {
				a, bb := q[i], q[(i+1)%n]
				for _, d := range []int64{3, 4, 6} {
					for _, o := range [][2]int64{{1, 0}, {-1, 0}, {0, 1}, {0, -1}, {1, 1}, {-1, -1}, {1, -1}, {-1, 1}} {
						c = append(c, Pt{a[0] + o[0]*d, a[1] + o[1]*d})
					}
				}
				mx, my := (a[0]+bb[0])/2, (a[1]+bb[1])/2
				dx, dy := bb[0]-a[0], bb[1]-a[1]
				l := max64(abs64(dx), abs64(dy))
				if l == 0 {
					continue
				}
				for _, d := range []int64{3, 5, 9} {
					nx, ny := -dy*d/l, dx*d/l
					c = append(c, Pt{mx + nx, my + ny}, Pt{mx - nx, my - ny})
					// third points too
					tx, ty := a[0]+dx/3, a[1]+dy/3
					c = append(c, Pt{tx + nx, ty + ny}, Pt{tx - nx, ty - ny})
				}
			}
		}
	}
	return c
}

// selectProbes picks up to nHint failing candidates and nOther others (preferring
// useful ones: useful(p) is e.g. "outside the band").
func selectProbes(r *rand.Rand, cands []Pt, bad, useful func(Pt) bool, nHint, nOther int) probeSel {
	var hints, good, rest []Pt
	for _, p := range cands {
		switch {
		case bad != nil && bad(p):
			hints = append(hints, p)
		case useful == nil || useful(p):
			good = append(good, p)
		default:
			rest = append(rest, p)
		}
	}
	r.Shuffle(len(hints), func(i, j int) { hints[i], hints[j] = hints[j], hints[i] })
	r.Shuffle(len(good), func(i, j int) { good[i], good[j] = good[j], good[i] })
	if len(hints) > nHint {
		hints = hints[:nHint]
	}
	if len(good) > nOther {
		good = good[:nOther]
	}
	out := append([]Pt{}, hints...)
	out = append(out, good...)
	if len(out) == 0 && len(rest) > 0 {
		out = append(out, rest[r.Intn(len(rest))])
	}
	if len(out) == 0 {
		out = append(out, Pt{0, 0})
	}
	return probeSel{Probes: out, Hints: len(hints)}
}
