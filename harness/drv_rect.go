package main

import (
	"math/rand"

	clipper "github.com/bolom009/go-clipper2"
)

// RectEv: rectangle clipping of closed paths (C06) or of open polylines (C11).
type RectEv struct {
	Ev    string   `json:"ev"` // "RectClip" | "RectClipLines"
	Chk   []string `json:"chk"`
	Api   string   `json:"api"`
	Rect  [4]int64 `json:"rect"` // left, top, right, bottom
	Paths Paths    `json:"paths"`

	Out      string `json:"out"`
	Ok       bool   `json:"ok"`
	Res      Paths  `json:"res"`
	Res2Same bool   `json:"res2same"`
	ArgsSame bool   `json:"argsSame"`
	Probes   []Pt   `json:"probes"`
	Hints    int    `json:"hints"`
	Nontriv  bool   `json:"nontriv"`
}

func callRect(e *RectEv) (Paths, string) {
	rc := clipper.NewRect64(e.Rect[0], e.Rect[1], e.Rect[2], e.Rect[3])
	in := toPaths64(e.Paths)
	var res clipper.Paths64
	out := safeCall(func() {
		switch e.Api {
		case "RectClipPaths64":
			res = clipper.RectClipPaths64(rc, in)
		case "RectClipPath64":
			for _, p := range in {
				res = append(res, clipper.RectClipPath64(rc, p)...)
			}
		case "RectClip64.Execute":
			res = clipper.NewRectClip64(rc).Execute(in)
		case "RectClipLinesPaths64":
			res = clipper.RectClipLinesPaths64(rc, in)
		case "RectClipLinesPath64":
			for _, p := range in {
				res = append(res, clipper.RectClipLinesPath64(rc, p)...)
			}
		case "RectClipLines64.Execute":
			res = clipper.NewRectClipLines64(rc).Execute(in)
		}
	})
	return fromPaths64(res), out
}

func rectPathOf(r [4]int64) Path {
	return Path{{r[0], r[1]}, {r[2], r[1]}, {r[2], r[3]}, {r[0], r[3]}}
}

func insideRect(r [4]int64, p Pt) bool {
	return p[0] > r[0] && p[0] < r[2] && p[1] > r[1] && p[1] < r[3]
}

func execRect(r *rand.Rand, e *RectEv) {
	p0 := clonePaths(e.Paths)
	res, out := callRect(e)
	e.Res, e.Out, e.Ok = nz(res), out, true
	e.ArgsSame = equalPaths(p0, e.Paths) && argsUnchanged()
	res2, _ := callRect(e)
	e.Res2Same = equalPaths(res, res2)
	rp := Paths{rectPathOf(e.Rect)}
	if e.Ev == "RectClip" {
		far := func(p Pt) bool { return farClosed(p, rp, 8) && farClosed(p, e.Paths, 8) }
		bad := func(p Pt) bool {
			if !far(p) {
				return false
			}
			w := wnPaths(p, res)
			if insideRect(e.Rect, p) {
				return w != wnPaths(p, e.Paths)
			}
			return w != 0
		}
		cands := candidatePoints(r, []Paths{e.Paths, rp, res}, 5)
		sel := selectProbes(r, cands, bad, far, 12, nProbes)
		e.Probes, e.Hints = sel.Probes, sel.Hints
		in, outN := false, false
		for _, p := range e.Probes {
			if far(p) && wnPaths(p, e.Paths) != 0 {
				if insideRect(e.Rect, p) {
					in = true
				} else {
					outN = true
				}
			}
		}
		e.Nontriv = in && outN
		return
	}
	// lines: probes are points ON the input polylines (vertices are multiples of 8, so eighth points are integral)
	var on []Pt
	for _, q := range e.Paths {
		for i := 0; i+1 < len(q); i++ {
			a, b := q[i], q[i+1]
			if a == b {
				continue // zero-length segments are outside the property
			}
			if (b[0]-a[0])%8 != 0 || (b[1]-a[1])%8 != 0 {
				on = append(on, a, b)
				continue
			}
			for k := int64(0); k <= 8; k++ {
				on = append(on, Pt{a[0] + (b[0]-a[0])*k/8, a[1] + (b[1]-a[1])*k/8})
			}
		}
	}
	farR := func(p Pt) bool { return farClosed(p, rp, 8) }
	bad := func(p Pt) bool {
		if !farR(p) {
			return false
		}
		if insideRect(e.Rect, p) {
			return farOpen(p, res, 6)
		}
		return !farOpen(p, res, 2)
	}
	r.Shuffle(len(on), func(i, j int) { on[i], on[j] = on[j], on[i] })
	sel := probeSel{Probes: []Pt{}}
	if len(on) > 0 {
		sel = selectProbes(r, on, bad, farR, 12, nProbes)
	}
	e.Probes, e.Hints = sel.Probes, sel.Hints
	in, outN := false, false
	for _, p := range e.Probes {
		if farR(p) {
			if insideRect(e.Rect, p) {
				in = true
			} else {
				outN = true
			}
		}
	}
	e.Nontriv = in && outN
}

// genRect picks a rectangle biased to pass through vertices / along edges of the paths.
func genRect(r *rand.Rand, paths Paths) [4]int64 {
	b, ok := boundsOf(paths)
	if !ok {
		return [4]int64{0, 0, 10, 10}
	}
	var xs, ys []int64
	for _, q := range paths {
		for _, p := range q {
			xs = append(xs, p[0])
			ys = append(ys, p[1])
		}
	}
	pick := func(v []int64, lo, hi int64) int64 {
		switch r.Intn(3) {
		case 0:
			return v[r.Intn(len(v))]
		default:
			return lo - 4 + r.Int63n(hi-lo+9)
		}
	}
	for {
		x0, x1 := pick(xs, b.x0, b.x1), pick(xs, b.x0, b.x1)
		y0, y1 := pick(ys, b.y0, b.y1), pick(ys, b.y0, b.y1)
		if x0 > x1 {
			x0, x1 = x1, x0
		}
		if y0 > y1 {
			y0, y1 = y1, y0
		}
		if x0 < x1 && y0 < y1 {
			return [4]int64{x0, y0, x1, y1}
		}
		if r.Intn(4) == 0 {
			return [4]int64{b.x0 - 3, b.y0 - 3, b.x1 + 3, b.y1 + 3}
		}
	}
}

var rectApis = []string{"RectClipPaths64", "RectClipPath64", "RectClip64.Execute"}
var rectLineApis = []string{"RectClipLinesPaths64", "RectClipLinesPath64", "RectClipLines64.Execute"}

// cornerPaths: polygons whose edges pass exactly through corners of the rectangle (touching it from outside or
// cutting across it), with the other vertices in the corner regions, on the side lines or anywhere: the
// situations in which RectClip64 has to decide which corners of the rectangle belong to the result
func cornerPaths(r *rand.Rand, rc [4]int64) Paths {
	corners := []Pt{{rc[0], rc[1]}, {rc[2], rc[1]}, {rc[2], rc[3]}, {rc[0], rc[3]}}
	w, h := rc[2]-rc[0], rc[3]-rc[1]
	anyPt := func() Pt {
		switch r.Intn(4) {
		case 0: // on a side line
			if r.Intn(2) == 0 {
				return Pt{[]int64{rc[0], rc[2]}[r.Intn(2)], rc[1] - h + r.Int63n(3*h+1)}
			}
			return Pt{rc[0] - w + r.Int63n(3*w+1), []int64{rc[1], rc[3]}[r.Intn(2)]}
		case 1: // a corner itself
			return corners[r.Intn(4)]
		}
		return Pt{rc[0] - w + r.Int63n(3*w+1), rc[1] - h + r.Int63n(3*h+1)}
	}
	np := 1 + r.Intn(2)
	out := make(Paths, 0, np)
	for k := 0; k < np; k++ {
		var q Path
		nseg := 1 + r.Intn(3)
		for j := 0; j < nseg; j++ {
			c := corners[r.Intn(4)]
			d := Pt{int64(r.Intn(9) - 4), int64(r.Intn(9) - 4)}
			if d == (Pt{}) {
				d = Pt{1, -2}
			}
			s1, s2 := int64(1+r.Intn(12)), int64(1+r.Intn(12))
			q = append(q, Pt{c[0] + s1*d[0], c[1] + s1*d[1]}, Pt{c[0] - s2*d[0], c[1] - s2*d[1]})
			if r.Intn(2) == 0 {
				q = append(q, anyPt())
			}
		}
		for len(q) < 3 {
			q = append(q, anyPt())
		}
		if r.Intn(2) == 0 {
			j := r.Intn(len(q))
			q = append(append(Path{}, q[j:]...), q[:j]...)
		}
		if r.Intn(2) == 0 {
			rev(q)
		}
		out = append(out, q)
	}
	return out
}

// lapPaths: polygons that walk round the rectangle through its eight outside regions (four sides, four corner
// regions) for part of a lap, a lap or more, in either direction, dipping into the rectangle now and then, with the
// vertex list starting anywhere: the situations in which RectClip64 has to replay the regions visited before the
// first crossing and to decide which corners belong to the result
func lapPaths(r *rand.Rand, rc [4]int64) Paths {
	w, h := rc[2]-rc[0], rc[3]-rc[1]
	pick := func(lo, hi int64) int64 { return lo + r.Int63n(hi-lo+1) }
	region := func(k int) Pt {
		xl, xm, xr := pick(rc[0]-w, rc[0]-1), pick(rc[0], rc[2]), pick(rc[2]+1, rc[2]+w)
		yt, ym, yb := pick(rc[1]-h, rc[1]-1), pick(rc[1], rc[3]), pick(rc[3]+1, rc[3]+h)
		switch k {
		case 0:
			return Pt{xl, yt}
		case 1:
			return Pt{xl, ym}
		case 2:
			return Pt{xl, yb}
		case 3:
			return Pt{xm, yb}
		case 4:
			return Pt{xr, yb}
		case 5:
			return Pt{xr, ym}
		case 6:
			return Pt{xr, yt}
		}
		return Pt{xm, yt}
	}
	k := r.Intn(8)
	dir := 1 - 2*r.Intn(2)
	m := 4 + r.Intn(8)
	var q Path
	for i := 0; i < m; i++ {
		if r.Intn(4) == 0 {
			q = append(q, Pt{pick(rc[0]+1, rc[2]-1), pick(rc[1]+1, rc[3]-1)}) // inside
		}
		q = append(q, region(((k%8)+8)%8))
		k += dir * (1 + r.Intn(2))
	}
	if r.Intn(2) == 0 {
		j := r.Intn(len(q))
		q = append(append(Path{}, q[j:]...), q[:j]...)
	}
	return Paths{q}
}

func driveRect(r *rand.Rand, w *writer, n int) {
	for i := 0; i < n; i++ {
		paths := genClosedSet(r, r.Intn(nClosedFams))
		rc := genRect(r, paths)
		if r.Intn(4) == 0 {
			x0, y0 := int64(r.Intn(40)-20), int64(r.Intn(40)-20)
			rc = [4]int64{x0, y0, x0 + 8 + int64(r.Intn(40)), y0 + 8 + int64(r.Intn(40))}
			if r.Intn(2) == 0 {
				paths = cornerPaths(r, rc)
			} else {
				paths = lapPaths(r, rc)
			}
		}
		e := &RectEv{Ev: "RectClip", Chk: chkFor("C06"), Api: rectApis[r.Intn(3)], Rect: rc, Paths: paths}
		execRect(r, e)
		w.emit(e)
	}
}

// genOpenSet: open polylines on multiples of 8
func genOpenSet(r *rand.Rand) Paths {
	n := 1 + r.Intn(3)
	s := make(Paths, n)
	for i := range s {
		k := 2 + r.Intn(5)
		if r.Intn(4) == 0 {
			k = 2
		}
		q := make(Path, 0, k)
		for j := 0; j < k; j++ {
			p := Pt{int64(r.Intn(17)-8) * 8, int64(r.Intn(17)-8) * 8}
			if r.Intn(5) == 0 && len(q) > 0 { // horizontal or vertical continuation
				if r.Intn(2) == 0 {
					p[1] = q[len(q)-1][1]
				} else {
					p[0] = q[len(q)-1][0]
				}
			}
			q = append(q, p)
		}
		s[i] = q
	}
	return s
}

func driveRectLines(r *rand.Rand, w *writer, n int) {
	for i := 0; i < n; i++ {
		paths := genOpenSet(r)
		rc := genRect(r, paths)
		if r.Intn(3) == 0 { // rectangle sides on the 8-grid: lines run along edges and touch corners
			rc = [4]int64{int64(r.Intn(8)-8) * 8, int64(r.Intn(8)-8) * 8, int64(1+r.Intn(8)) * 8, int64(1+r.Intn(8)) * 8}
		}
		e := &RectEv{Ev: "RectClipLines", Chk: chkFor("C11"), Api: rectLineApis[r.Intn(3)], Rect: rc, Paths: paths}
		execRect(r, e)
		w.emit(e)
	}
}
