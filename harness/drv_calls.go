package main

import (
	"bufio"
	"encoding/json"
	"math/rand"
	"os"
	"strings"

	clipper "github.com/bolom009/go-clipper2"
)

// Replay of the C03 call space enumerated by TLC from spec/Calls.tla.

type callRec struct {
	Api string `json:"api"`
	A   Paths  `json:"a"`
	B   Paths  `json:"b"`
	N1  int64  `json:"n1"`
	N2  int64  `json:"n2"`
	N3  int64  `json:"n3"`
	N4  int64  `json:"n4"`
	Big bool   `json:"big"`
}

type CallEv struct {
	Ev   string          `json:"ev"` // "Call"
	Chk  []string        `json:"chk"`
	Call json.RawMessage `json:"call"`
	Out  string          `json:"out"`
	Ok   bool            `json:"ok"`
	Hist string          `json:"hist"`
}

func first(s Paths) Path {
	if len(s) == 0 {
		return Path{}
	}
	return s[0]
}

func pathDOf(p Path) clipper.PathD {
	out := newPathD(len(p))
	for i, q := range p {
		out[i] = clipper.PointD{X: float64(q[0]), Y: float64(q[1])}
	}
	return regPathD(out)
}

func performCall(c *callRec) (ok bool) {
	ok = true
	a, b := clonePaths(c.A), clonePaths(c.B)
	if c.Big {
		a, b = scalePaths(a, 1000000), scalePaths(b, 1000000)
	}
	a64, b64 := toPaths64(a), toPaths64(b)
	ct, fr := clipper.ClipType(c.N1), clipper.FillRule(c.N2)
	var clip64 clipper.Paths64 = b64
	if c.N3 == 1 {
		clip64 = nil
	}
	prec := int(c.N4)
	switch c.Api {
	case "BooleanOpPaths64":
		clipper.BooleanOpPaths64(ct, a64, clip64, fr)
	case "BooleanOpPathsD":
		clipper.BooleanOpPathsD(ct, toPathsD(a), toPathsD(b), fr, prec)
	case "BooleanOpPolyTree64":
		clipper.BooleanOpPolyTree64(ct, a64, clip64, fr)
	case "BooleanOpPolyTreeD":
		clipper.BooleanOpPolyTreeD(ct, toPathsD(a), toPathsD(b), fr, prec)
	case "Engine64", "Engine64OC":
		e := clipper.NewClipper64()
		e.AddPaths(a64, clipper.Subject, false)
		e.AddPaths(b64, clipper.Clip, false)
		e.AddPaths(a64, clipper.Subject, true)
		var s, o clipper.Paths64
		if c.Api == "Engine64" {
			ok = e.Execute(ct, fr, &s)
		} else {
			ok = e.ExecuteOC(ct, fr, &s, &o)
		}
	case "EngineDTree":
		e := clipper.NewClipperD(prec)
		e.AddPaths(toPathsD(a), clipper.Subject, false)
		e.AddPaths(toPathsD(b), clipper.Clip, false)
		e.AddPaths(toPathsD(a), clipper.Subject, true)
		t := clipper.NewPolyTreeD()
		var o clipper.PathsD
		ok = e.ExecutePolyTreeD(ct, fr, t, &o)
	case "NewClipperD":
		e := clipper.NewClipperD(prec)
		e.AddPaths(toPathsD(a), clipper.Subject, false)
		var s clipper.PathsD
		ok = e.Execute(clipper.Union, clipper.NonZero, &s)
	case "InflatePaths64":
		clipper.InflatePaths64(a64, float64(c.N1)/4, clipper.JoinType(c.N2), clipper.EndType(c.N3))
	case "InflatePathsD":
		clipper.InflatePathsD(toPathsD(a), 1.5, clipper.Round, clipper.Polygon, clipper.WithPrecision(prec))
	case "MinkowskiSum64":
		clipper.MinkowskiSum64(to64(first(a)), to64(first(b)), c.N1 == 1)
	case "MinkowskiDiff64":
		clipper.MinkowskiDiff64(to64(first(a)), to64(first(b)), c.N1 == 1)
	case "MinkowskiSumD":
		clipper.MinkowskiSumD(pathDOf(first(a)), pathDOf(first(b)), true, prec)
	case "MinkowskiDiffD":
		clipper.MinkowskiDiffD(pathDOf(first(a)), pathDOf(first(b)), true, prec)
	case "RectClipPaths64", "RectClipLinesPaths64", "RectClip64.Execute", "RectClipLines64.Execute":
		rr := first(b)
		rc := clipper.NewRect64(rr[0][0], rr[0][1], rr[1][0], rr[1][1])
		switch c.Api {
		case "RectClipPaths64":
			clipper.RectClipPaths64(rc, a64)
		case "RectClipLinesPaths64":
			clipper.RectClipLinesPaths64(rc, a64)
		case "RectClip64.Execute":
			clipper.NewRectClip64(rc).Execute(a64)
		default:
			clipper.NewRectClipLines64(rc).Execute(a64)
		}
	case "RectClipPathsD":
		clipper.RectClipPathsD(clipper.NewRectD(0, 0, 1.5, 1.5), toPathsD(a), prec)
	case "RectClipLinesPathsD":
		clipper.RectClipLinesPathsD(clipper.NewRectD(0, 0, 1.5, 1.5), toPathsD(a), prec)
	case "TrimCollinearD":
		clipper.TrimCollinearD(pathDOf(first(a)), prec, false)
	case "Area64":
		clipper.Area64(to64(first(a)))
		clipper.AreaPaths64(a64)
	case "IsPositive64":
		clipper.IsPositive64(to64(first(a)))
	case "GetBounds64":
		clipper.GetBounds64(to64(first(a)))
	case "StripDuplicates":
		clipper.StripDuplicates(to64(first(a)), c.N1 == 1)
	case "TrimCollinear64":
		clipper.TrimCollinear64(to64(first(a)), c.N1 == 1)
	case "ReversePath":
		clipper.ReversePath(to64(first(a)))
	case "TranslatePath64":
		clipper.TranslatePath64(to64(first(a)), 5, -7)
		clipper.TranslatePaths64(a64, -5, 7)
		clipper.OffsetPath(to64(first(a)), 1, 1)
	case "ScalePath64":
		clipper.ScalePath64(to64(first(a)), 0.5+float64(c.N1))
		clipper.ScalePaths64ToPathsD(a64, 0.01)
		clipper.ScalePathsDToPaths64(toPathsD(a), 100)
	case "Path64ToPathD":
		clipper.Path64ToPathD(to64(first(a)))
		clipper.PathsDToPaths64(clipper.Paths64ToPathsD(a64))
	case "SimplifyPath64":
		clipper.SimplifyPath64(to64(first(a)), float64(c.N1)/4, c.N2 == 1)
		clipper.SimplifyPaths64(a64, float64(c.N1)/4, c.N2 == 1)
	case "SimplifyPathD":
		clipper.SimplifyPathD(pathDOf(first(a)), float64(c.N1)/4, c.N2 == 1)
	case "PointInPolygon":
		clipper.PointInPolygon(clipper.Point64{X: c.N1, Y: c.N2}, to64(first(a)))
	case "Ellipse64":
		clipper.Ellipse64(clipper.Point64{X: 1, Y: 1}, float64(c.N1)/4, float64(c.N2)/4, int(c.N3))
		clipper.EllipseD(clipper.PointD{X: 1, Y: 1}, float64(c.N1)/4, float64(c.N2)/4, int(c.N3))
	case "InflatePathsD.full":
		clipper.InflatePathsD(toPathsD(a), float64(c.N1)/4, clipper.JoinType(c.N2), clipper.EndType(c.N3), clipper.WithPrecision(prec))
	case "ClipperOffset":
		co := clipper.NewClipperOffset(2, 0.25, c.N4&1 != 0, c.N4&2 != 0)
		co.AddPaths(a64, clipper.JoinType(c.N2), clipper.EndType(c.N3))
		if c.N4&8 != 0 {
			co.AddPaths(a64, clipper.Round, clipper.Polygon)
		}
		d := float64(c.N1) / 4
		if c.N4&4 != 0 {
			var cb clipper.DeltaCallbackFunc = func(path *clipper.Path64, norms *clipper.PathD, curr, prev uint8) float64 { return d }
			co.SetDeltaCallback(&cb)
		}
		var s clipper.Paths64
		co.Execute64(d, &s)
		if c.N4&8 != 0 {
			co.Execute64(-d, &s)
		}
		co.CalcSolutionCapacity()
	case "RectClipPathsD.full", "RectClipLinesPathsD.full", "RectClipPathD", "RectClipLinesPathD", "RectClipPath64", "RectClipLinesPath64":
		rr := first(b)
		rc := clipper.NewRect64(rr[0][0], rr[0][1], rr[1][0], rr[1][1])
		rd := clipper.NewRectD(float64(rr[0][0]), float64(rr[0][1]), float64(rr[1][0]), float64(rr[1][1]))
		switch c.Api {
		case "RectClipPathsD.full":
			clipper.RectClipPathsD(rd, toPathsD(a), prec)
		case "RectClipLinesPathsD.full":
			clipper.RectClipLinesPathsD(rd, toPathsD(a), prec)
		case "RectClipPathD":
			clipper.RectClipPathD(rd, pathDOf(first(a)))
		case "RectClipLinesPathD":
			clipper.RectClipLinesPathD(rd, pathDOf(first(a)))
		case "RectClipPath64":
			clipper.RectClipPath64(rc, to64(first(a)))
		default:
			clipper.RectClipLinesPath64(rc, to64(first(a)))
		}
	case "MinkowskiSumD.full":
		clipper.MinkowskiSumD(pathDOf(first(a)), pathDOf(first(b)), c.N1 == 1, prec)
	case "MinkowskiDiffD.full":
		clipper.MinkowskiDiffD(pathDOf(first(a)), pathDOf(first(b)), c.N1 == 1, prec)
	case "EngineDOC", "EngineDSF":
		e := clipper.NewClipperD(prec)
		if c.Api == "EngineDOC" {
			e.AddPaths(toPathsD(a), clipper.Subject, false)
			e.AddPaths(toPathsD(b), clipper.Clip, false)
			e.AddPaths(toPathsD(a), clipper.Subject, true)
			var s, o clipper.PathsD
			ok = e.ExecuteOC(ct, fr, &s, &o)
		} else {
			e.AddPathsWithScaleFunc(toPathsD(a), clipper.Subject, false, clipper.ScalePathsDToPaths64)
			e.AddPathsWithScaleFunc(toPathsD(b), clipper.Clip, false, clipper.ScalePathsDToPaths64)
			e.AddPathsWithScaleFunc(toPathsD(a), clipper.Subject, true, clipper.ScalePathsDToPaths64)
			var s, o clipper.PathsD
			ok = e.ExecuteWithScaleFunc(ct, fr, &s, &o, clipper.ScalePath64ToPathD)
		}
	case "PolyTreeAPI64", "PolyTreeAPID":
		var root *clipper.PolyPathBase
		if c.Api == "PolyTreeAPI64" {
			root = clipper.BooleanOpPolyTree64(ct, a64, clip64, fr).PolyPathBase
		} else {
			root = clipper.BooleanOpPolyTreeD(ct, toPathsD(a), toPathsD(b), fr, prec).PolyPathBase
		}
		var walk func(n *clipper.PolyPathBase)
		walk = func(n *clipper.PolyPathBase) {
			n.Count()
			n.Level()
			n.IsHole()
			n.Polygon()
			n.Scale()
			for _, ch := range n.GetChildren() {
				walk(ch)
			}
		}
		walk(root)
		_ = root.ToString()
		root.Clear()
		root.Count()
		_ = root.ToString()
		root.AddChild(to64(first(a)))
	case "AreaD":
		clipper.AreaD(pathDOf(first(a)))
		clipper.AreaPathsD(toPathsD(a))
		clipper.IsPositiveD(pathDOf(first(a)))
	case "TrimCollinearD.full":
		clipper.TrimCollinearD(pathDOf(first(a)), prec, c.N1 == 1)
	case "SimplifyPathsD":
		clipper.SimplifyPathsD(toPathsD(a), 0.5, c.N1 == 1)
	case "PathDHelpers":
		pd := pathDOf(first(a))
		clipper.ScalePathD(pd, 0.5+float64(c.N1))
		clipper.TranslatePathD(pd, 0.5, -0.5)
		clipper.TranslatePathsD(toPathsD(a), 1, 1)
		clipper.PathDToPath64(pd)
		clipper.ScalePathDToPath64(pd, 10)
		clipper.ScalePath64ToPathD(to64(first(a)), 0.1)
		clipper.MakePath64()
		clipper.MakePathD()
	case "PointRectMethods":
		rr := first(b)
		rc := clipper.NewRect64(rr[0][0], rr[0][1], rr[1][0], rr[1][1])
		rd := clipper.NewRectD(float64(rr[0][0]), float64(rr[0][1]), float64(rr[1][0]), float64(rr[1][1]))
		p := clipper.Point64{X: c.N1, Y: c.N2}
		pd := clipper.PointD{X: float64(c.N1), Y: float64(c.N2)}
		rc.IsEmpty()
		rc.IsInvalid()
		rc.MidPoint()
		rc.AsPath()
		rc.Contains(rc)
		rc.Intersects(clipper.NewRect64(0, 0, 1, 1))
		rd.IsEmpty()
		rd.IsInvalid()
		rd.MidPoint()
		rd.AsPath()
		rd.Contains(rd)
		rd.Intersects(clipper.NewRectD(0, 0, 1, 1))
		ri, rdi := clipper.NewRect64Invalid(true), clipper.NewRectDInvalid(false)
		ri.IsInvalid()
		rdi.IsInvalid()
		clipper.ScaleRect64(rc, 0.5)
		clipper.ScaleRectD(rd, 10)
		p.Equals(p)
		p.NEquals(p)
		p.Add(p)
		p.Sub(p)
		p.ToPointD()
		pd.Equals(pd)
		pd.NEquals(pd)
		pd.Negate()
		pd.ToPoint64()
		clipper.NewFloatPoint64(float64(c.N1)+0.5, float64(c.N2)-0.5)
		clipper.PointsNearEqual(pd, pd, 0.5)
		clipper.PerpendicDistFromLineSqrD(pd, pd, pd)
		clipper.PerpendicDistFromLineSqr64(p, p, p)
		clipper.CrossProduct(p, p, p)
	default:
		fatal("unknown api in call space:", c.Api)
	}
	return ok
}

func replayCallsFile(in string, w *writer) int {
	f, err := os.Open(in)
	if err != nil {
		fatal(err)
	}
	defer f.Close()
	sc := bufio.NewScanner(f)
	sc.Buffer(make([]byte, 1<<20), 1<<24)
	n := 0
	for sc.Scan() {
		ln := sc.Text()
		i := strings.Index(ln, `<<"HIST", `)
		if i < 0 {
			continue
		}
		q := strings.TrimSuffix(strings.TrimSpace(ln[i+len(`<<"HIST", `):]), ">>")
		var js string
		if err := json.Unmarshal([]byte(q), &js); err != nil {
			fatal("bad HIST line", err, ln)
		}
		var c callRec
		if err := json.Unmarshal([]byte(js), &c); err != nil {
			fatal("bad call", err, js)
		}
		ev := &CallEv{Ev: "Call", Chk: []string{"C03"}, Call: json.RawMessage(js), Hist: js}
		ok := true
		ev.Out = safeCall(func() { ok = performCall(&c) })
		ev.Ok = ok
		// a Reset line per call keeps the history-based triage uniform
		w.emit(&EngEv{Ev: "Reset", Chk: []string{}, Hist: js})
		w.emit(ev)
		n++
	}
	return n
}

// replaySmallFile: the exhaustive small scope of spec/SmallScope.tla (every element is one boolean operation)
func replaySmallFile(r *rand.Rand, in string, w *writer, chk []string) int {
	f, err := os.Open(in)
	if err != nil {
		fatal(err)
	}
	defer f.Close()
	sc := bufio.NewScanner(f)
	sc.Buffer(make([]byte, 1<<20), 1<<24)
	n := 0
	for sc.Scan() {
		ln := sc.Text()
		i := strings.Index(ln, `<<"HIST", `)
		if i < 0 {
			continue
		}
		q := strings.TrimSuffix(strings.TrimSpace(ln[i+len(`<<"HIST", `):]), ">>")
		var js string
		if err := json.Unmarshal([]byte(q), &js); err != nil {
			fatal("bad HIST line", err, ln)
		}
		var in struct {
			Subj Paths `json:"subj"`
			Clip Paths `json:"clip"`
			Open Paths `json:"open"`
			Ct   int   `json:"ct"`
			Fr   int   `json:"fr"`
		}
		if err := json.Unmarshal([]byte(js), &in); err != nil {
			fatal("bad input", err, js)
		}
		if len(in.Open) > 0 {
			oe := &OpenEv{Ev: "OpenOp", Chk: chk, Api: openApis[n%len(openApis)], Ct: in.Ct, Fr: in.Fr,
				Subj: nz(in.Subj), Open: nz(in.Open), Clip: nz(in.Clip)}
			execOpen(r, oe)
			w.emit(&EngEv{Ev: "Reset", Chk: []string{}, Hist: js})
			w.emit(oe)
			n++
			continue
		}
		e := &BoolEv{Ev: "BooleanOp", Chk: chk, Api: boolApis[n%len(boolApis)], Ct: in.Ct, Fr: in.Fr,
			Subj: nz(in.Subj), Clip: nz(in.Clip)}
		execBool(r, e)
		w.emit(&EngEv{Ev: "Reset", Chk: []string{}, Hist: js})
		w.emit(e)
		n++
	}
	return n
}
