package main

import (
	"bufio"
	"encoding/json"
	"math/rand"
	"os"
	"runtime"
	"strconv"
	"strings"
	"sync"
	"time"

	clipper "github.com/bolom009/go-clipper2"
)

// Concurrency (C18): TLC-chosen schedules forced onto goroutines through the gate hook, and
// free-running stress. This file is meant to be built with -race.

type ConcCall struct {
	Proc int    `json:"proc"`
	Api  string `json:"api"`
	Out  string `json:"out"`
	Same bool   `json:"same"`
}

type SchedEv struct {
	Ev         string     `json:"ev"` // "SchedRun"
	Chk        []string   `json:"chk"`
	N          int        `json:"n"`
	S          int        `json:"s"`
	Forced     bool       `json:"forced"`
	Sched      []int      `json:"sched"`
	Observed   []int      `json:"observed"`
	Calls      []ConcCall `json:"calls"`
	InputsSame bool       `json:"inputsSame"`
	Race       bool       `json:"race"`
	Nontriv    bool       `json:"nontriv"`
	Hist       string     `json:"hist"`
}

// shared read-only inputs
var concSubj = clipper.Paths64{
	{{X: 0, Y: 0}, {X: 90, Y: 10}, {X: 100, Y: 95}, {X: 40, Y: 60}, {X: 5, Y: 100}},
	{{X: 20, Y: 20}, {X: 30, Y: 70}, {X: 80, Y: 30}, {X: 60, Y: 90}},
	{{X: 120, Y: 10}, {X: 170, Y: 20}, {X: 160, Y: 80}, {X: 110, Y: 60}},
}
var concClip = clipper.Paths64{
	{{X: 50, Y: -10}, {X: 130, Y: 40}, {X: 70, Y: 120}, {X: -10, Y: 50}},
	{{X: 100, Y: 0}, {X: 180, Y: 5}, {X: 150, Y: 100}},
}

type program struct {
	api string
	run func(register func(obj any)) clipper.Paths64
}

func concPrograms() []program {
	return []program{
		{"Engine64.Execute(Xor,NonZero)", func(reg func(any)) clipper.Paths64 {
			c := clipper.NewClipper64()
			reg(clipper.VerifBase64(c))
			c.AddPaths(concSubj, clipper.Subject, false)
			c.AddPaths(concClip, clipper.Clip, false)
			var s clipper.Paths64
			c.Execute(clipper.Xor, clipper.NonZero, &s)
			return s
		}},
		{"ClipperOffset.Execute64(Round)", func(reg func(any)) clipper.Paths64 {
			co := clipper.NewClipperOffset(2, 0.25, false, false)
			reg(co)
			co.AddPaths(concSubj, clipper.Round, clipper.Polygon)
			var s clipper.Paths64
			co.Execute64(7.5, &s)
			return s
		}},
		{"RectClip64.Execute", func(reg func(any)) clipper.Paths64 {
			rc := clipper.NewRectClip64(clipper.NewRect64(25, 15, 140, 85))
			reg(rc)
			return rc.Execute(append(append(clipper.Paths64{}, concSubj...), concClip...))
		}},
		{"EngineD.Execute(Difference,EvenOdd)", func(reg func(any)) clipper.Paths64 {
			c := clipper.NewClipperD(2)
			reg(clipper.VerifBaseD(c))
			c.AddPaths(clipper.Paths64ToPathsD(concSubj), clipper.Subject, false)
			c.AddPaths(clipper.Paths64ToPathsD(concClip), clipper.Clip, false)
			var s clipper.PathsD
			c.Execute(clipper.Difference, clipper.EvenOdd, &s)
			return clipper.ScalePathsDToPaths64(s, 100)
		}},
		{"ClipperOffset.Execute64(Round,arc 0.5)", func(reg func(any)) clipper.Paths64 {
			co := clipper.NewClipperOffset(2, 0.5, false, false)
			reg(co)
			co.AddPaths(concClip, clipper.Round, clipper.RoundET)
			var s clipper.Paths64
			co.Execute64(4, &s)
			return s
		}},
		// package-level functions: their internal objects gate through the calling goroutine
		{"BooleanOpPathsD(Xor,Positive)", func(reg func(any)) clipper.Paths64 {
			return clipper.ScalePathsDToPaths64(clipper.BooleanOpPathsD(clipper.Xor, clipper.Paths64ToPathsD(concSubj), clipper.Paths64ToPathsD(concClip), clipper.Positive, 1), 10)
		}},
		{"InflatePathsD(Round,Joined)", func(reg func(any)) clipper.Paths64 {
			return clipper.ScalePathsDToPaths64(clipper.InflatePathsD(clipper.Paths64ToPathsD(concSubj), 3.5, clipper.Round, clipper.Joined), 100)
		}},
		{"RectClipPathsD", func(reg func(any)) clipper.Paths64 {
			in := append(clipper.Paths64ToPathsD(concSubj), clipper.PathD{{X: 40, Y: 30}, {X: 70, Y: 35}, {X: 50, Y: 60}})
			return clipper.ScalePathsDToPaths64(clipper.RectClipPathsD(clipper.NewRectD(25, 15, 140, 85), in, 1), 10)
		}},
		{"MinkowskiSum64", func(reg func(any)) clipper.Paths64 {
			return clipper.MinkowskiSum64(concClip[1], concSubj[0], true)
		}},
		{"BooleanOpPolyTree64(Union,EvenOdd)", func(reg func(any)) clipper.Paths64 {
			t := clipper.BooleanOpPolyTree64(clipper.Union, concSubj, concClip, clipper.EvenOdd)
			out := clipper.Paths64{}
			var walk func(n *clipper.PolyPathBase)
			walk = func(n *clipper.PolyPathBase) {
				for _, ch := range n.GetChildren() {
					out = append(out, ch.Polygon())
					walk(ch)
				}
			}
			walk(t.PolyPathBase)
			return out
		}},
		{"InflatePaths64(Miter,Joined)", func(reg func(any)) clipper.Paths64 {
			return clipper.InflatePaths64(concClip, 5, clipper.Miter, clipper.Joined)
		}},
	}
}

func samePaths64(a, b clipper.Paths64) bool { return equalPaths(fromPaths64(a), fromPaths64(b)) }

// gate bookkeeping: object -> process controller
type procCtl struct {
	id      int
	gates   int // gates of this call when run alone
	seen    int
	segment int
	resume  chan struct{}
}

var (
	gateMap   sync.Map // obj -> *procCtl
	schedReq  chan int // process id asking to start its next segment
	forceMode bool
	segs      int
)

// goid: the id of the calling goroutine (parsed from the stack header). Package-level functions create their
// engine / offset / rect-clip objects internally, so their gates are attributed to the calling goroutine.
func goid() int64 {
	var buf [64]byte
	n := runtime.Stack(buf[:], false)
	f := strings.Fields(string(buf[:n]))
	if len(f) < 2 {
		return -1
	}
	id, err := strconv.ParseInt(f[1], 10, 64)
	if err != nil {
		return -1
	}
	return id
}

var goMap sync.Map // goroutine id -> *procCtl

func gateHook(obj any) {
	v, ok := gateMap.Load(obj)
	if !ok {
		if v, ok = goMap.Load(goid()); !ok {
			return
		}
	}
	p := v.(*procCtl)
	if !forceMode {
		p.seen++
		return
	}
	// segment of this gate: gates are spread evenly over the S segments
	seg := 0
	if p.gates > 0 {
		seg = p.seen * segs / p.gates
	}
	p.seen++
	for p.segment <= seg && p.segment < segs {
		schedReq <- p.id // announce: ready to start segment p.segment
		<-p.resume
		p.segment++
	}
}

// runSchedule forces one TLC schedule: sched is the order in which segment starts are released.
func runSchedule(n, s int, sched []int, progs []program, alone []clipper.Paths64, gatesAlone []int) *SchedEv {
	e := &SchedEv{Ev: "SchedRun", Chk: chkFor("C18"), N: n, S: s, Forced: true, Sched: sched, Observed: []int{}}
	s0, c0 := fromPaths64(concSubj), fromPaths64(concClip)
	forceMode, segs = true, s
	schedReq = make(chan int)
	ctls := make([]*procCtl, n+1)
	results := make([]clipper.Paths64, n+1)
	outs := make([]string, n+1)
	var wg sync.WaitGroup
	finished := make(chan int, n)
	for p := 1; p <= n; p++ {
		ctl := &procCtl{id: p, gates: gatesAlone[p], resume: make(chan struct{})}
		ctls[p] = ctl
		wg.Add(1)
		go func(p int, ctl *procCtl) {
			defer wg.Done()
			g := goid()
			goMap.Store(g, ctl)
			defer goMap.Delete(g)
			outs[p] = safeCall(func() {
				results[p] = progs[p-1].run(func(obj any) { gateMap.Store(obj, ctl) })
			})
			// segments the call never reached (fewer gates than expected) are consumed here
			for ctl.segment < segs {
				schedReq <- ctl.id
				<-ctl.resume
				ctl.segment++
			}
			finished <- p
		}(p, ctl)
	}
	// scheduler: release segment starts in the prescribed order
	waiting := map[int]bool{}
	for _, want := range sched {
		for !waiting[want] {
			select {
			case id := <-schedReq:
				waiting[id] = true
			case <-time.After(30 * time.Second):
				e.Observed = append(e.Observed, -1)
				goto done
			}
		}
		waiting[want] = false
		e.Observed = append(e.Observed, want)
		ctls[want].resume <- struct{}{}
	}
done:
	wg.Wait()
	gateMap.Range(func(k, _ any) bool { gateMap.Delete(k); return true })
	for p := 1; p <= n; p++ {
		e.Calls = append(e.Calls, ConcCall{Proc: p, Api: progs[p-1].api, Out: outs[p], Same: samePaths64(results[p], alone[p])})
	}
	e.InputsSame = equalPaths(s0, fromPaths64(concSubj)) && equalPaths(c0, fromPaths64(concClip))
	e.Nontriv = true
	return e
}

// runFree: free-running stress, g goroutines x rounds over all programs
func runFree(g, rounds int, progs []program, alone []clipper.Paths64) *SchedEv {
	e := &SchedEv{Ev: "SchedRun", Chk: chkFor("C18"), N: g, S: rounds, Forced: false, Sched: []int{}, Observed: []int{}}
	forceMode = false
	s0, c0 := fromPaths64(concSubj), fromPaths64(concClip)
	var wg sync.WaitGroup
	var mu sync.Mutex
	bad := map[string]bool{}
	outs := map[string]string{}
	for i := 0; i < g; i++ {
		wg.Add(1)
		go func(i int) {
			defer wg.Done()
			for k := 0; k < rounds; k++ {
				pi := (i + k) % len(progs)
				var res clipper.Paths64
				out := safeCall(func() { res = progs[pi].run(func(any) {}) })
				// package-level functions on the shared inputs as well
				var res2 clipper.Paths64
				out2 := safeCall(func() { res2 = clipper.BooleanOpPaths64(clipper.Union, concSubj, concClip, clipper.EvenOdd) })
				mu.Lock()
				if out != "ok" || out2 != "ok" {
					outs[progs[pi].api] = out + out2
				}
				if !samePaths64(res, alone[pi+1]) || !samePaths64(res2, alone[0]) {
					bad[progs[pi].api] = true
				}
				mu.Unlock()
			}
		}(i)
	}
	wg.Wait()
	for pi, p := range progs {
		o := "ok"
		if v, ok := outs[p.api]; ok {
			o = v
		}
		e.Calls = append(e.Calls, ConcCall{Proc: pi + 1, Api: p.api, Out: o, Same: !bad[p.api]})
	}
	e.InputsSame = equalPaths(s0, fromPaths64(concSubj)) && equalPaths(c0, fromPaths64(concClip))
	runPkg(e, g, (rounds+7)/8)
	e.Nontriv = true
	return e
}

func replaySchedFile(r *rand.Rand, in string, w *writer, freeG, freeRounds int) int {
	progs := concPrograms()
	clipper.VerifGate = gateHook
	// results and gate counts of every program when run alone
	alone := make([]clipper.Paths64, len(progs)+1)
	gatesAlone := make([]int, len(progs)+1)
	alone[0] = clipper.BooleanOpPaths64(clipper.Union, concSubj, concClip, clipper.EvenOdd)
	forceMode = false
	for i, p := range progs {
		ctl := &procCtl{id: i + 1}
		g := goid()
		goMap.Store(g, ctl)
		alone[i+1] = p.run(func(obj any) { gateMap.Store(obj, ctl) })
		goMap.Delete(g)
		gatesAlone[i+1] = ctl.seen
		gateMap.Range(func(k, _ any) bool { gateMap.Delete(k); return true })
	}
	n := 0
	if in != "" {
		f, err := os.Open(in)
		if err != nil {
			fatal(err)
		}
		defer f.Close()
		sc := bufio.NewScanner(f)
		sc.Buffer(make([]byte, 1<<20), 1<<24)
		for sc.Scan() {
			ln := sc.Text()
			i := strings.Index(ln, `<<"HIST", `)
			if i < 0 {
				continue
			}
			q := strings.TrimSuffix(strings.TrimSpace(ln[i+len(`<<"HIST", `):]), ">>")
			var js string
			if err := json.Unmarshal([]byte(q), &js); err != nil {
				fatal("bad HIST line", err, ln)
			}
			var h struct {
				N      int   `json:"n"`
				S      int   `json:"s"`
				Sched  []int `json:"sched"`
				Free   int   `json:"free"`
				Rounds int   `json:"rounds"`
			}
			if err := json.Unmarshal([]byte(js), &h); err != nil {
				fatal("bad schedule", err, js)
			}
			if h.Free > 0 { // free-running stress
				w.emit(&EngEv{Ev: "Reset", Chk: []string{}, Hist: js})
				ev := runFree(h.Free, h.Rounds, progs, alone)
				ev.Hist = js
				w.emit(ev)
				n++
				continue
			}
			// rotate the programs so that every program takes part in forced schedules
			rot := 0 // a function of the schedule alone, so that replaying one schedule is faithful
			for i, p := range h.Sched {
				rot += (i + 1) * p
			}
			rot %= len(progs)
			pr := append(append([]program{}, progs[rot:]...), progs[:rot]...)
			al := []clipper.Paths64{alone[0]}
			ga := []int{0}
			for k := 0; k < len(progs); k++ {
				al = append(al, alone[(rot+k)%len(progs)+1])
				ga = append(ga, gatesAlone[(rot+k)%len(progs)+1])
			}
			w.emit(&EngEv{Ev: "Reset", Chk: []string{}, Hist: js})
			ev := runSchedule(h.N, h.S, h.Sched, pr, al, ga)
			ev.Hist = js
			w.emit(ev)
			n++
		}
	}
	if freeG > 0 {
		w.emit(&EngEv{Ev: "Reset", Chk: []string{}, Hist: "free"})
		ev := runFree(freeG, freeRounds, progs, alone)
		ev.Hist = "free"
		w.emit(ev)
		n++
	}
	return n
}
