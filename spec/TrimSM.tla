------------------------------- MODULE TrimSM -------------------------------
(***************************************************************************)
(* Component machine for TrimCollinear64.  State: the set S of removed     *)
(* vertex indices of the input path P.  Action Remove(i): vertex i is      *)
(* retained, is not a protected end point of an open path, and is exactly  *)
(* collinear with its current retained neighbours (a vertex whose two      *)
(* neighbours coincide, i.e. a spike tip or one of two remaining vertices, *)
(* is collinear with them).  A terminal state has no enabled Remove.  The  *)
(* result of the operation is the retained sub-sequence of a terminal      *)
(* state, or the empty path when fewer than 3 vertices of a closed path    *)
(* remain.  The machine is nondeterministic (the removal order is free);   *)
(* C15 demands that the library's result R is the result of SOME terminal  *)
(* state.  Accepts(P, closed, R) explores only states from which R is      *)
(* still obtainable (R is a sub-sequence of the retained vertices), which  *)
(* keeps the search small without changing the answer.                     *)
(* Collinearity is decided natively for small coordinates and in BigInt    *)
(* beyond (MC_GeometryB shows the two agree).                              *)
(***************************************************************************)
EXTENDS Geometry, FiniteSets
GB == INSTANCE GeometryB

BigCoords(P) == \E i \in 1..Len(P) : Abs(P[i][1]) > 8192 \/ Abs(P[i][2]) > 8192

Col(big, a, b, c) == IF big THEN GB!CollinearB(GB!BPt(a), GB!BPt(b), GB!BPt(c)) ELSE Orient(a, b, c) = 0

\* cyclic predecessor / successor of i among the retained indices (i itself if it is the only one)
PrevRet(n, S, i) ==
  LET f[k \in 0..n] == IF k = 0 THEN i
                       ELSE LET j == ((i - k - 1 + 2 * n) % n) + 1 IN
                            IF f[k - 1] # i THEN f[k - 1] ELSE IF j \notin S THEN j ELSE i
  IN  f[n]
NextRet(n, S, i) ==
  LET f[k \in 0..n] == IF k = 0 THEN i
                       ELSE LET j == ((i + k - 1) % n) + 1 IN
                            IF f[k - 1] # i THEN f[k - 1] ELSE IF j \notin S THEN j ELSE i
  IN  f[n]

Removable(P, big, closed, S, i) ==
  LET n == Len(P) IN
  /\ i \notin S
  /\ (closed \/ (i # 1 /\ i # n))
  /\ Col(big, P[PrevRet(n, S, i)], P[i], P[NextRet(n, S, i)])

Terminal(P, big, closed, S) == \A i \in 1..Len(P) : ~Removable(P, big, closed, S, i)

SubPath(P, S) ==
  LET n == Len(P)
      f[i \in 0..n] == IF i = 0 THEN <<>> ELSE IF i \in S THEN f[i - 1] ELSE Append(f[i - 1], P[i])
  IN  f[n]

ResultOf(P, closed, S) ==
  LET r == SubPath(P, S) IN IF closed /\ Len(r) < 3 THEN <<>> ELSE r

\* R is a sub-sequence of Q (greedy earliest match)
IsSubSeq(R, Q) ==
  LET m == Len(R)
      f[i \in 0..m] == IF i = 0 THEN 0
                       ELSE IF f[i - 1] = -1 THEN -1
                       ELSE LET c == {j \in (f[i - 1] + 1)..Len(Q) : Q[j] = R[i]} IN
                            IF c = {} THEN -1 ELSE CHOOSE j \in c : \A k \in c : j <= k
  IN  f[m] # -1
IsCyclicSubSeq(R, Q) == Len(R) = 0 \/ \E r \in 0..(Len(Q) - 1) : IsSubSeq(R, Rotate(Q, r))

Compatible(P, closed, S, R) ==
  IF closed THEN IsCyclicSubSeq(R, SubPath(P, S)) ELSE IsSubSeq(R, SubPath(P, S))

\* states reachable from the empty removal set from which R is still obtainable
Levels(P, big, closed, R) ==
  LET n == Len(P)
      L[k \in 0..n] == IF k = 0 THEN {{}}
                       ELSE UNION {{S \cup {i} : i \in {j \in 1..n : Removable(P, big, closed, S, j)
                                                                    /\ Compatible(P, closed, S \cup {j}, R)}}
                                   : S \in L[k - 1]}
  IN  UNION {L[k] : k \in 0..n}

AllCollinear(P, big) == \A i \in 1..Len(P) : Col(big, P[1], P[i], P[Len(P)]) /\ Col(big, P[1], P[2], P[i])

\* closed paths: R is the result of a TERMINAL state (nothing removable is left);
\* open paths: the property only demands that nothing but collinear vertices was removed and
\* that the end points survive, so R may be the retained path of any reachable state.
\* (reference definition: breadth-first over all states from which R is still obtainable)
AcceptsRef(P, closed, R) ==
  LET big == BigCoords(P) IN
  IF closed /\ R = <<>> /\ Len(P) >= 2 /\ AllCollinear(P, big) THEN TRUE      \* shortcut: everything can be removed
  ELSE \E S \in Levels(P, big, closed, R) :
          /\ ~closed \/ Terminal(P, big, closed, S) \/ Len(P) - Cardinality(S) < 3
          /\ IF closed THEN SameCyclic(ResultOf(P, closed, S), R) ELSE ResultOf(P, closed, S) = R

\* The same, computed through the possible removal sets: a state whose result is R removes exactly a set T with
\* ResultOf(P, closed, T) = R, removals only grow the set, so T is reachable iff it is reachable through subsets
\* of itself.  (Equivalent to AcceptsRef; far fewer states, and no sub-sequence test per state.)
Matches(P, closed, T, R) ==
  IF closed THEN SameCyclic(ResultOf(P, closed, T), R) ELSE ResultOf(P, closed, T) = R
ReachSet(P, big, closed, T) ==
  LET m == Cardinality(T)
      L[k \in 0..m] == IF k = 0 THEN {{}}
                       ELSE UNION {{S \cup {i} : i \in {j \in T \ S : Removable(P, big, closed, S, j)}} : S \in L[k - 1]}
  IN  T \in L[m]
Accepts(P, closed, R) ==
  LET big == BigCoords(P)  n == Len(P) IN
  IF closed /\ R = <<>> /\ n >= 2 /\ AllCollinear(P, big) THEN TRUE
  ELSE \E T \in SUBSET (1..n) :
          /\ (IF closed /\ R = <<>> THEN n - Cardinality(T) < 3 ELSE Cardinality(T) = n - Len(R))
          /\ Matches(P, closed, T, R)
          /\ ~closed \/ Terminal(P, big, closed, T) \/ n - Cardinality(T) < 3
          /\ ReachSet(P, big, closed, T)
=============================================================================
