------------------------------- MODULE Region -------------------------------
(***************************************************************************)
(* Region semantics of Clipper2: fill rules, clip types, the expected      *)
(* answer of a boolean operation at a point, the rounding band, and the    *)
(* canonical-set predicates shared by all region-valued operations.        *)
(* Enumerations use the library's numeric values:                          *)
(*   ClipType  0 NoClip 1 Intersection 2 Union 3 Difference 4 Xor          *)
(*   FillRule  0 EvenOdd 1 NonZero 2 Positive 3 Negative                   *)
(***************************************************************************)
EXTENDS Geometry

Fill(fr, w) == CASE fr = 0 -> (w % 2) # 0
                 [] fr = 1 -> w # 0
                 [] fr = 2 -> w > 0
                 [] OTHER  -> w < 0

Comb(ct, s, c) == CASE ct = 1 -> s /\ c
                    [] ct = 2 -> s \/ c
                    [] ct = 3 -> s /\ ~c
                    [] ct = 4 -> s # c
                    [] OTHER  -> FALSE          \* NoClip and out-of-range values: empty result

InSet(fr, paths, p) == Fill(fr, WnPaths(p, paths))

\* the answer a boolean operation must give at p
Expected(ct, fr, subj, clip, p) == Comb(ct, InSet(fr, subj, p), InSet(fr, clip, p))

\* band radius of the integer-rounding band: 2 units  (8 quarter units)
Band4 == 8

\* C01 at one probe: outside the band of the inputs the solution is filled iff expected
RegionOKAt(ct, fr, subj, clip, sol, p) ==
  (FarClosed(p, subj, Band4) /\ FarClosed(p, clip, Band4))
     => ((WnPaths(p, sol) # 0) <=> Expected(ct, fr, subj, clip, p))

\* C02 structural part for one closed path
PathCanonical(path) ==
  /\ Len(path) >= 3
  /\ \A i \in 1..Len(path) : path[i] # Nxt(path, i)

\* C02 at one probe: outside the solution's own band the winding number is 0 or 1 (0 or -1 reversed)
CanonicalAt(sol, rev, p) ==
  FarClosed(p, sol, Band4) => (WnPaths(p, sol) \in (IF rev THEN {0, -1} ELSE {0, 1}))

\* two path sets describe the same region at p (outside both bands), non-zero sense
SameRegionAt(a, b, p) ==
  (FarClosed(p, a, Band4) /\ FarClosed(p, b, Band4)) => ((WnPaths(p, a) # 0) <=> (WnPaths(p, b) # 0))
=============================================================================
