----------------------------- MODULE SmallScope -----------------------------
(***************************************************************************)
(* Exhaustive small scope for the region properties (C01, and C02 on the   *)
(* same calls): EVERY boolean operation whose subject and clip are single  *)
(* triangles with vertices on the 3 x 3 lattice {-8,0,8}^2 (all 168        *)
(* ordered triples of distinct lattice points up to rotation: both         *)
(* orientations, collinear triples included), for all four clip types and  *)
(* the fill rules EvenOdd and Positive (for a single triangle NonZero      *)
(* reads as EvenOdd, and Negative is Positive on the reversed triangles,   *)
(* which are in the space), plus every self-union of a quadrilateral on    *)
(* the lattice (756 vertex cycles, bow-ties and spikes included) under all *)
(* four fill rules.  The lattice spacing 8 puts most edge intersections    *)
(* off the integer grid, so the rounding paths of the sweep are exercised. *)
(* TLC enumerates the space (IsInput, bounded quantifiers as in Calls.tla),*)
(* every element is executed on the real library and the recorded call is  *)
(* judged by the trace specification's BooleanOpOK.                        *)
(***************************************************************************)
EXTENDS Integers, Sequences, FiniteSets, TLC, Json

\* (centred at the origin, so that diagonals cross at exactly (0,0): a position in-band "unset" markers collide with)
L == {<<8 * x, 8 * y>> : x \in -1..1, y \in -1..1}
Less(p, q) == p[1] < q[1] \/ (p[1] = q[1] /\ p[2] < q[2])

\* vertex cycles with distinct vertices, written from their smallest vertex
Tri(a, b, c) == a # b /\ b # c /\ a # c /\ Less(a, b) /\ Less(a, c)
Quad(a, b, c, d) == Cardinality({a, b, c, d}) = 4 /\ Less(a, b) /\ Less(a, c) /\ Less(a, d)

In(s, c, ct, fr) == [subj |-> s, clip |-> c, ct |-> ct, fr |-> fr]

IsInput(i) ==
  \/ \E a \in L, b \in L, c \in L, d \in L, e \in L, f \in L, ct \in 1..4, fr \in {0, 2} :
        Tri(a, b, c) /\ Tri(d, e, f) /\ i = In(<< <<a, b, c>> >>, << <<d, e, f>> >>, ct, fr)
  \/ \E a \in L, b \in L, c \in L, d \in L, fr \in 0..3 :
        Quad(a, b, c, d) /\ i = In(<< <<a, b, c, d>> >>, <<>>, 2, fr)

\* Open subject lines (C09): every polyline of 2 or 3 distinct lattice points (576: horizontal, vertical and slanted
\* segments, hairpins, lines starting / ending on clip vertices and edges) against every clip triangle, Intersection
\* and Difference (without a closed subject Union reads as Difference), EvenOdd: 193 536 operations
OpenIn(o, c, ct) == [open |-> o, subj |-> <<>>, clip |-> c, ct |-> ct, fr |-> 0]
IsOpenInput(i) ==
  \/ \E p \in L, q \in L, d \in L, e \in L, f \in L, ct \in {1, 3} :
        p # q /\ Tri(d, e, f) /\ i = OpenIn(<< <<p, q>> >>, << <<d, e, f>> >>, ct)
  \/ \E p \in L, q \in L, r \in L, d \in L, e \in L, f \in L, ct \in {1, 3} :
        p # q /\ q # r /\ p # r /\ Tri(d, e, f) /\ i = OpenIn(<< <<p, q, r>> >>, << <<d, e, f>> >>, ct)

VARIABLE input
SInitOpen == IsOpenInput(input)
SInit == IsInput(input)
SNext == UNCHANGED input
EmitInput == PrintT(<<"HIST", ToJson(input)>>)
=============================================================================
