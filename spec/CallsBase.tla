----------------------------- MODULE CallsBase -----------------------------
(* Expected outcome of a call of the C03 call space (shared by the generator model Calls.tla
   and by the trace specification). *)
EXTENDS Integers
\* the only permitted panic: the documented precision-range error
PrecApi(c) == c.api \in {"BooleanOpPathsD", "BooleanOpPolyTreeD", "NewClipperD", "InflatePathsD", "MinkowskiSumD", "MinkowskiDiffD",
                         "RectClipPathsD", "RectClipLinesPathsD", "TrimCollinearD", "EngineDTree"}
Outcome(c) == IF PrecApi(c) /\ (c.n4 < -8 \/ c.n4 > 8) THEN "panic:precision is out of range" ELSE "ok"

=============================================================================
