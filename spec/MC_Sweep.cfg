INIT Init
NEXT Next
CONSTANT ClipStride = 8
INVARIANT Theorem
CHECK_DEADLOCK FALSE
