------------------------------- MODULE Sweep -------------------------------
(***************************************************************************)
(* The Vatti scan-beam sweep as the specification sees it, independent of  *)
(* the implementation's bookkeeping.  The sweep runs from large Y to small *)
(* Y.  For the scan-beam that starts at scan-line y (after the local       *)
(* minima and horizontals at y have been processed) the active edges are   *)
(* exactly the non-horizontal input edges with bot.Y >= y > top.Y, ordered *)
(* by x inside the beam; winding counts are prefix sums over that order    *)
(* and an edge contributes to the solution exactly when the region on its  *)
(* left and the region on its right differ in the clip operation's answer. *)
(*                                                                         *)
(* MC_Sweep model-checks the scan-beam theorem for these definitions (the  *)
(* parity of contributing edges left of a point equals Region!Expected);   *)
(* the trace specification checks the implementation's active edge list,   *)
(* recorded by a hook at every scan-line, against S1..S4.                  *)
(***************************************************************************)
EXTENDS Region, FiniteSets

\* vertices as the engine keeps them: consecutive duplicates and a closing duplicate removed
Dedup(path) ==
  LET n == Len(path)
      f[i \in 0..n] == IF i = 0 THEN <<>> ELSE IF i > 1 /\ path[i] = path[i - 1] THEN f[i - 1] ELSE Append(f[i - 1], path[i])
      r == f[n]
  IN  IF Len(r) > 1 /\ r[Len(r)] = r[1] THEN SubSeq(r, 1, Len(r) - 1) ELSE r

Flat(path) == \A i \in 1..Len(path) : path[i][2] = path[1][2]
Usable(path) == Len(path) >= 2 /\ ~Flat(path)

\* the non-horizontal edges of one closed path; wdx = +1 when the path direction runs towards smaller Y
EdgesOfPath(path, isClip) ==
  LET q == Dedup(path) IN
  IF ~Usable(q) THEN <<>>
  ELSE LET n == Len(q)
           f[i \in 0..n] ==
             IF i = 0 THEN <<>>
             ELSE LET a == q[i] b == Nxt(q, i) IN
                  IF a[2] = b[2] THEN f[i - 1]
                  ELSE IF b[2] < a[2] THEN Append(f[i - 1], [bot |-> a, top |-> b, wdx |-> 1, clip |-> isClip])
                  ELSE Append(f[i - 1], [bot |-> b, top |-> a, wdx |-> -1, clip |-> isClip])
       IN  f[n]

EdgesOf(paths, isClip) ==
  LET n == Len(paths)
      f[k \in 0..n] == IF k = 0 THEN <<>> ELSE f[k - 1] \o EdgesOfPath(paths[k], isClip)
  IN  f[n]

InputEdges(subj, clip) == EdgesOf(subj, FALSE) \o EdgesOf(clip, TRUE)

\* the non-horizontal edges of an open polyline (no closing edge; consecutive duplicates removed).  Open edges carry
\* wdx = 0 here: they never enter a winding sum (the implementation's own direction flag of open bounds is not
\* specified)
OpenEdgesOfPath(path) ==
  LET n == Len(path)
      f[i \in 0..n] == IF i <= 1 THEN <<>>
                       ELSE LET a == path[i - 1] b == path[i] IN
                            IF a[2] = b[2] THEN f[i - 1]
                            ELSE IF b[2] < a[2] THEN Append(f[i - 1], [bot |-> a, top |-> b, wdx |-> 0, clip |-> FALSE, open |-> TRUE])
                            ELSE Append(f[i - 1], [bot |-> b, top |-> a, wdx |-> 0, clip |-> FALSE, open |-> TRUE])
  IN  f[n]
OpenEdgesOf(paths) ==
  LET n == Len(paths)
      f[k \in 0..n] == IF k = 0 THEN <<>> ELSE f[k - 1] \o OpenEdgesOfPath(paths[k])
  IN  f[n]

\* edges active in the beam that starts at scan-line y
Spans(e, y) == e.bot[2] >= y /\ e.top[2] < y

\* number of elements of sequence s equal to x
CountEq(s, x) == Cardinality({i \in 1..Len(s) : s[i] = x})

\* x of edge e at height Y = y - 1/2, as a fraction num / den with den > 0:
\*   x = bot.x + (top.x - bot.x) * (2y - 1 - 2 bot.y) / (2 (top.y - bot.y))
XNum(e, y) == e.bot[1] * 2 * (e.bot[2] - e.top[2]) + (e.top[1] - e.bot[1]) * (2 * e.bot[2] - 2 * y + 1)
XDen(e)    == 2 * (e.bot[2] - e.top[2])
\* x_a <= x_b + slack  (slack in whole units)
LeqX(a, b, y, slack) == XNum(a, y) * XDen(b) <= (XNum(b, y) + slack * XDen(b)) * XDen(a)
\* strictly left of the point (px, y - 1/2)
LeftOfPt(e, y, px) == XNum(e, y) < px * XDen(e)
OnPt(e, y, px) == XNum(e, y) = px * XDen(e)

\* region answer for given subject / clip winding numbers
InAnswer(ct, fr, ws, wc) == Comb(ct, Fill(fr, ws), Fill(fr, wc))

\* prefix sums over an ordered edge list: winding of same / other type strictly left of position i
SumLeft(ael, i, clipType) ==
  LET f[j \in 0..(i - 1)] == IF j = 0 THEN 0 ELSE f[j - 1] + (IF ael[j].clip = clipType THEN ael[j].wdx ELSE 0)
  IN  f[i - 1]

\* does edge i of the ordered list separate filled from unfilled?
Contributes(ct, fr, ael, i) ==
  LET e == ael[i]
      sameL == SumLeft(ael, i, e.clip)  sameR == sameL + e.wdx
      other == SumLeft(ael, i, ~e.clip)
  IN  IF e.clip THEN InAnswer(ct, fr, other, sameL) # InAnswer(ct, fr, other, sameR)
      ELSE InAnswer(ct, fr, sameL, other) # InAnswer(ct, fr, sameR, other)

\* the winding bookkeeping the implementation keeps per edge (closed paths)
WcExpected(fr, ael, i) ==
  LET e == ael[i] wb == SumLeft(ael, i, e.clip) wa == wb + e.wdx IN
  IF Abs(wa) >= Abs(wb) THEN wa ELSE wb
Wc2Expected(fr, ael, i) ==
  LET w == SumLeft(ael, i, ~ael[i].clip) IN IF fr = 0 THEN (IF w % 2 = 0 THEN 0 ELSE 1) ELSE w

\* two neighbouring edges that coincide inside the beam (same x at both ends of the beam's interior)
Coincide(a, b, y) == XNum(a, y) * XDen(b) = XNum(b, y) * XDen(a) /\ XNum(a, y - 1) * XDen(b) = XNum(b, y - 1) * XDen(a)

(***************************************************************************)
(* S1..S4 for one recorded beam: beam = [y, ael] with ael the              *)
(* implementation's active edges left to right, each                       *)
(* [bot, top, wdx, clip, open, wc, wc2, hot, joined, horiz].               *)
(***************************************************************************)
AsEdge(r) == [bot |-> r.bot, top |-> r.top, wdx |-> IF r.open THEN 0 ELSE r.wdx, clip |-> r.clip]
AsEdgeO(r) == [bot |-> r.bot, top |-> r.top, wdx |-> IF r.open THEN 0 ELSE r.wdx, clip |-> r.clip, open |-> r.open]
WithOpen(e) == [bot |-> e.bot, top |-> e.top, wdx |-> e.wdx, clip |-> e.clip, open |-> FALSE]

\* inputs: the closed input edges; openIn: the edges of the open subject lines
S1Membership(inputs, openIn, beam) ==
  LET rec == [i \in 1..Len(beam.ael) |-> AsEdgeO(beam.ael[i])]
      exp == [i \in 1..Len(inputs) |-> WithOpen(inputs[i])] \o openIn
      expB == SelectSeq(exp, LAMBDA e : Spans(e, beam.y)) IN
  /\ \A i \in 1..Len(beam.ael) : ~beam.ael[i].horiz
  /\ Len(rec) = Len(expB)
  /\ \A i \in 1..Len(rec) : CountEq(rec, rec[i]) = CountEq(expB, rec[i])

\* The snapshot is taken before the intersections of the beam are processed, so the list is in the order
\* of the beam's BOTTOM: x is compared on the scan-line y itself (2 units of slack for the rounding of
\* interpolated x values; edges meeting in one point on the scan-line may appear in either order).
XNumOn(e, y) == e.bot[1] * (e.bot[2] - e.top[2]) + (e.top[1] - e.bot[1]) * (e.bot[2] - y)
XDenOn(e)    == e.bot[2] - e.top[2]
LeqXOn(a, b, y, slack) == XNumOn(a, y) * XDenOn(b) <= (XNumOn(b, y) + slack * XDenOn(b)) * XDenOn(a)
\* (two edges that cross within the first unit above the scan-line are already kept in the order of the beam's
\*  interior: the order may be that of the line one unit further up instead)
S2Order(beam) ==
  \A i \in 1..(Len(beam.ael) - 1) :
     \/ LeqXOn(AsEdge(beam.ael[i]), AsEdge(beam.ael[i + 1]), beam.y, 2)
     \/ LeqXOn(AsEdge(beam.ael[i]), AsEdge(beam.ael[i + 1]), beam.y - 1, 2)

S3Winding(fr, beam) ==
  LET ael == [i \in 1..Len(beam.ael) |-> AsEdge(beam.ael[i])] IN
  \* (under EvenOdd the implementation only keeps |wc| = 1: the sign is copied between the two bounds of a
  \*  local minimum and swapped at intersections, and is never consulted)
  \* (open edges keep the counts they were inserted with; they are not updated when the line crosses closed edges)
  \A i \in 1..Len(ael) : beam.ael[i].open \/
                          (/\ IF fr = 0 THEN Abs(beam.ael[i].wc) = 1 ELSE beam.ael[i].wc = WcExpected(fr, ael, i)
                           /\ beam.ael[i].wc2 = Wc2Expected(fr, ael, i))

\* contribution is demanded for edges that do not coincide with a neighbour (between coincident edges the
\* region has zero width and either bookkeeping is acceptable)
S4Contribution(ct, fr, beam) ==
  LET ael == [i \in 1..Len(beam.ael) |-> AsEdge(beam.ael[i])]  n == Len(ael) IN
  \A i \in 1..n :
     ((i > 1 /\ Coincide(ael[i - 1], ael[i], beam.y)) \/ (i < n /\ Coincide(ael[i], ael[i + 1], beam.y)))
        \/ (IF beam.ael[i].open
            \* an open subject edge is part of the open solution exactly where the line runs inside the operation's
            \* region: inside the clip region (Intersection), outside both closed regions (Union), outside the clip (else)
            THEN beam.ael[i].hot = (LET ws == SumLeft(ael, i, FALSE)  wc == SumLeft(ael, i, TRUE) IN
                                    CASE ct = 1 -> Fill(fr, wc)
                                      [] ct = 2 -> ~Fill(fr, ws) /\ ~Fill(fr, wc)
                                      [] OTHER -> ~Fill(fr, wc))
            ELSE (beam.ael[i].hot \/ beam.ael[i].joined) = Contributes(ct, fr, ael, i))

\* S5: scan-lines strictly decrease and every one is the Y of an input vertex
S5Scanlines(subj, clip, beams) ==
  /\ \A k \in 1..(Len(beams) - 1) : beams[k].y > beams[k + 1].y
  /\ \A k \in 1..Len(beams) : \E j \in 1..Len(subj \o clip) : \E i \in 1..Len((subj \o clip)[j]) : (subj \o clip)[j][i][2] = beams[k].y

(***************************************************************************)
(* S6: the intersections of one scan-beam.  Between scan-line y and the    *)
(* next scan-line topY the order of the active edges changes from the      *)
(* order at the bottom to the order at the top by adjacent transpositions, *)
(* one per processed intersection node.  P[k] is the specification's copy  *)
(* of the order after k nodes (indices into the recorded bottom list).     *)
(* Every node must exchange two neighbours a (left) and b (right) that     *)
(* really cross inside the beam: at the top a is no longer left of b       *)
(* (exact x, one unit of slack for the rounded curX the implementation     *)
(* compares), no pair is exchanged twice, the node's point lies inside the *)
(* beam and near both edges, and when all nodes are processed the list is  *)
(* in the order of the top.  This is the bubble-sort theorem of the Vatti  *)
(* sweep: the processed nodes are exactly the inversions between bottom    *)
(* and top order.                                                          *)
(***************************************************************************)
SwapAt(perm, p) == IF p \in 1..(Len(perm) - 1) THEN [perm EXCEPT ![p] = perm[p + 1], ![p + 1] = perm[p]] ELSE perm

S6Intersections(beam, topY, r4) ==
  LET n == Len(beam.ael)  m == Len(beam.xs)
      ael == [i \in 1..n |-> AsEdge(beam.ael[i])]
      P[k \in 0..m] == IF k = 0 THEN [i \in 1..n |-> i] ELSE SwapAt(P[k - 1], beam.xs[k].pos)
      L(k) == P[k - 1][beam.xs[k].pos]            \* the two edges node k exchanges
      R(k) == P[k - 1][beam.xs[k].pos + 1]
  IN
  /\ \A k \in 1..m : beam.xs[k].left /\ beam.xs[k].pos \in 1..(n - 1)
  /\ \A k \in 1..m :
       LET a == ael[L(k)]  b == ael[R(k)]  pt == beam.xs[k].pt IN
       /\ LeqXOn(b, a, topY, 1)
       /\ pt[2] >= topY /\ pt[2] <= beam.y
       /\ NearSeg(pt, a.bot, a.top, r4) /\ NearSeg(pt, b.bot, b.top, r4)
  /\ \A k1 \in 1..m : \A k2 \in (k1 + 1)..m : {L(k1), R(k1)} # {L(k2), R(k2)}
  /\ \A i \in 1..(n - 1) : LeqXOn(ael[P[m][i]], ael[P[m][i + 1]], topY, 1)

S6All(beams, r4) ==
  \A k \in 1..Len(beams) :
     IF k = Len(beams) THEN beams[k].xs = <<>>
     ELSE S6Intersections(beams[k], beams[k + 1].y, r4)

(***************************************************************************)
(* R1..R3: the output records the sweep leaves behind (before collinear    *)
(* cleaning, self-intersection repair and path building).                  *)
(*  R1  every record with points is a consistent doubly linked ring (same  *)
(*      length both ways, next/prev inverse of each other) whose points    *)
(*      all belong to it, and no record is still attached to an edge;      *)
(*  R2  records are numbered by position, getRealOutRec terminates, and    *)
(*      the owner relation is a forest when a PolyTree is built;           *)
(*  R3  the raw rings already describe the operation's region;             *)
(*  R4  the later passes only tidy the representation: the final solution  *)
(*      describes the same region as the raw rings.                        *)
(***************************************************************************)
R1Rings(rings) ==
  \A i \in 1..Len(rings) :
     LET r == rings[i] IN
     /\ r.frontNil /\ r.backNil
     /\ r.hasPts => (r.nFwd = r.nBack /\ r.linksOK /\ r.opsOwned /\ Len(r.pts) = r.nFwd)
     /\ ~r.hasPts => (r.nFwd = 0 /\ r.pts = <<>>)

\* Up[k][i]: the record reached from record i after k steps of getRealOutRec (stop at a record with points; 0: none)
R2Owners(rings, tree) ==
  LET n == Len(rings)
      Real[k \in 0..n] == [i \in 1..n |-> IF k = 0 THEN i ELSE
                              LET j == Real[k - 1][i] IN IF j = 0 \/ rings[j].hasPts THEN j ELSE rings[j].owner + 1]
      Up[k \in 0..n] == [i \in 1..n |-> IF k = 0 THEN i ELSE
                            LET j == Up[k - 1][i] IN IF j = 0 THEN 0 ELSE rings[j].owner + 1]
  IN  /\ \A i \in 1..n : rings[i].idx = i - 1 /\ rings[i].owner \in -1..(n - 1) /\ rings[i].owner # i - 1
      \* getRealOutRec terminates from every record
      /\ \A i \in 1..n : Real[n][i] = 0 \/ rings[Real[n][i]].hasPts
      \* when a PolyTree is being built the owner relation is a forest (setOwner refuses cycles); for flat
      \* results owners of merged records are assigned without that test and only getRealOutRec uses them
      /\ tree => \A i \in 1..n : Up[n][i] = 0

RawRings(rings) == LET s == SelectSeq(rings, LAMBDA r : r.hasPts /\ ~r.open) IN [i \in 1..Len(s) |-> s[i].pts]

SweepOK(e) ==
  LET inputs == InputEdges(e.subj, e.clip)  openIn == OpenEdgesOf(e.open) IN
  /\ S5Scanlines(e.subj \o e.open, e.clip, e.beams)
  /\ \A k \in 1..Len(e.beams) :
       /\ S1Membership(inputs, openIn, e.beams[k])
       /\ S2Order(e.beams[k])
       /\ S3Winding(e.fr, e.beams[k])
       /\ S4Contribution(e.ct, e.fr, e.beams[k])
=============================================================================
