INIT LInit
NEXT LNext
CONSTANT MaxLen = 4
INVARIANT PathsFromHistory
INVARIANT Emit
CHECK_DEADLOCK FALSE
