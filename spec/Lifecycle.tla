----------------------------- MODULE Lifecycle -----------------------------
(***************************************************************************)
(* Bounded model of object life-cycles: every history of AddPaths /        *)
(* Execute / ExecuteOC / ExecutePolyTree calls on one engine (integer or   *)
(* floating-point kind) over a small alphabet, and of AddPaths / Execute64 *)
(* on one ClipperOffset.  TLC enumerates (or simulates) the histories; a   *)
(* history that ends in an execution is printed as JSON and replayed       *)
(* against the real objects, and the recorded replay is validated by       *)
(* Trace.tla.  Invariants: the path state is changed by AddPaths only, and *)
(* the implementation-only flags never feed the abstract observation.      *)
(***************************************************************************)
EXTENDS Clipper2, Json

CONSTANT MaxLen

\* alphabet: path-pool indices are resolved by the replayer (and checked by the trace spec)
\* via: "paths" = AddPaths with the whole set; "path" = the exported single-path AddPath, once per path of the set (the
\* integer engine only; the other kinds read it as "paths").  The specification's effect is the same.
AddOps  == { [op |-> "add", p |-> 1, ptype |-> 0, open |-> FALSE, via |-> "paths"],
             [op |-> "add", p |-> 2, ptype |-> 1, open |-> FALSE, via |-> "paths"],
             [op |-> "add", p |-> 3, ptype |-> 1, open |-> FALSE, via |-> "path"],
             [op |-> "add", p |-> 4, ptype |-> 0, open |-> TRUE, via |-> "paths"],
             [op |-> "add", p |-> 5, ptype |-> 0, open |-> FALSE, via |-> "path"],
             [op |-> "add", p |-> 6, ptype |-> 1, open |-> FALSE, via |-> "paths"] }
ExecOps == { [op |-> "exec", form |-> "closed", ct |-> 2, fr |-> 1],
             [op |-> "exec", form |-> "closed", ct |-> 4, fr |-> 1],
             [op |-> "exec", form |-> "oc",     ct |-> 3, fr |-> 2],
             [op |-> "exec", form |-> "tree",   ct |-> 4, fr |-> 1],
             [op |-> "exec", form |-> "tree",   ct |-> 2, fr |-> 3] }
Kinds == {"64", "D", "Off"}

VARIABLES kind, hist
lvars == <<kind, hist, engines, offsets, pkg>>

\* pool of path sets as the specification sees them (integer units)
Pool == << << << <<0, 0>>, <<32, 0>>, <<32, 32>>, <<0, 32>> >> >>,
           << << <<16, 16>>, <<48, 16>>, <<48, 48>>, <<16, 48>> >> >>,
           << << <<8, 8>>, <<40, 40>>, <<40, 8>>, <<8, 40>> >> >>,
           << << <<-8, 24>>, <<24, 24>>, <<24, -8>>, <<56, 40>> >> >>,
           \* rectilinear sets whose Xor splits an output polygon at a horizontal join (the case in which
           \* the implementation's poly-tree bookkeeping changes the order of the flat result)
           << << <<8, 24>>, <<40, 24>>, <<40, 48>>, <<8, 48>> >>, << <<32, 32>>, <<48, 32>>, <<48, 56>>, <<32, 56>> >>,
              << <<16, 16>>, <<24, 16>>, <<24, 40>>, <<16, 40>> >> >>,
           << << <<24, 0>>, <<56, 0>>, <<56, 32>>, <<24, 32>> >> >> >>

\* join type of the offset group built from pool entry p (3 = Round: the join type with state between executions)
JtOf == <<3, 2, 3, 0, 1, 3>>

LInit == /\ kind \in Kinds /\ hist = <<>>
         /\ engines = IF kind = "Off" THEN <<>> ELSE (1 :> NewEngineRec(kind, 2))
         /\ offsets = IF kind = "Off" THEN (1 :> [miter4 |-> 8, arc4 |-> 1, pc |-> FALSE, rev |-> FALSE, groups |-> <<>>, nexec |-> 0]) ELSE <<>>
         /\ pkg = [x \in {} |-> 0]

DoAdd(o) ==
  /\ IF kind = "Off"
     THEN OffAdd(1, Pool[o.p], JtOf[o.p], IF o.open THEN 2 ELSE 0)
     ELSE EngAdd(1, IF kind = "D" THEN Pool[o.p] ELSE Pool[o.p], o.ptype, o.open)
DoExec(o) == IF kind = "Off" THEN OffExecEffect(1) ELSE EngExecEffect(1, o.form)

LNext ==
  /\ Len(hist) < MaxLen
  /\ \E o \in AddOps \cup ExecOps :
       /\ hist' = Append(hist, o)
       /\ IF o.op = "add" THEN DoAdd(o) ELSE DoExec(o)
  /\ UNCHANGED kind

\* abstract observation of an engine: what an execution may depend on
Obs(g) == <<g.subj, g.clip, g.open>>

\* the paths in the state are exactly the adds of the history, in order (nothing else changes them)
PathsFromHistory ==
  kind # "Off" =>
    LET k == IF kind = "D" THEN 100 ELSE 1
        adds(pt, op) == LET f[i \in 0..Len(hist)] ==
                              IF i = 0 THEN <<>>
                              ELSE IF hist[i].op = "add" /\ hist[i].ptype = pt /\ hist[i].open = op
                                   THEN f[i - 1] \o ScalePaths(Pool[hist[i].p], k) ELSE f[i - 1]
                        IN f[Len(hist)]
    IN  Obs(engines[1]) = <<adds(0, FALSE), adds(1, FALSE), adds(0, TRUE)>>

\* emit every complete history that ends with an execution (for replay against the real code)
Emit == (Len(hist) > 0 /\ hist[Len(hist)].op = "exec" /\ (Len(hist) = MaxLen \/ Len(hist) <= 2))
           => PrintT(<<"HIST", ToJson([kind |-> kind, ops |-> hist])>>)
=============================================================================
