------------------------------- MODULE Sched -------------------------------
(***************************************************************************)
(* Concurrent use of the library (C18).  N client processes each perform   *)
(* one long-running call on their own object while reading the same input  *)
(* slices.  A call is cut into S segments at the gate points the           *)
(* implementation exposes (scan-beams of an engine execution, paths of an  *)
(* offset group, paths of a rectangle clip).  The only variable shared by  *)
(* the processes is `pkg`, the package-level mutable state of the library, *)
(* and no step may change it: that is the whole design, and it is what     *)
(* makes every call's result equal to its result when run alone.           *)
(* TLC enumerates every interleaving of the segments; each complete        *)
(* schedule is printed and forced onto real goroutines through blocking    *)
(* gate hooks; the recorded run (observed order of segment starts, result  *)
(* of every call compared with its result when run alone, built with the   *)
(* race detector) is validated by SchedRunOK in the trace specification.   *)
(***************************************************************************)
EXTENDS Integers, Sequences, FiniteSets, TLC, Json

CONSTANTS N, S        \* processes 1..N, segments per call

VARIABLES pc, sched, pkg
svars == <<pc, sched, pkg>>

SInit == pc = [p \in 1..N |-> 0] /\ sched = <<>> /\ pkg = [x \in {} |-> 0]

Step(p) == /\ pc[p] < S
           /\ pc' = [pc EXCEPT ![p] = @ + 1]
           /\ sched' = Append(sched, p)
           /\ UNCHANGED pkg                 \* a segment touches only the process's own object and reads the inputs

SNext == \E p \in 1..N : Step(p)

PkgUntouched == pkg = [x \in {} |-> 0]
PkgNeverWritten == [][pkg' = pkg]_svars

Done == \A p \in 1..N : pc[p] = S
EmitSched == Done => PrintT(<<"HIST", ToJson([n |-> N, s |-> S, sched |-> sched])>>)
=============================================================================
