INIT Init
NEXT Next
INVARIANT Inv
CHECK_DEADLOCK FALSE
