INIT Init
NEXT Next
CONSTANT ClipStride = 1
INVARIANT Theorem
CHECK_DEADLOCK FALSE
