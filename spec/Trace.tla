------------------------------- MODULE Trace -------------------------------
(***************************************************************************)
(* Trace validation: every line of trace.ndjson was recorded from the real *)
(* library; each is replayed as the specification action of the same name. *)
(* A line the action does not accept is recorded in `rej` (with the        *)
(* failing clause printed by Chk) and validation continues, so one run     *)
(* reports every rejected event.  The run is complete only if the          *)
(* TRACE_DONE line is printed with the full length.                        *)
(***************************************************************************)
EXTENDS Clipper2, Json

Trace == ndJsonDeserialize("trace.ndjson")

VARIABLES l, rej
tvars == <<l, rej, engines, offsets, pkg>>

\* does the system action named by the event accept it (pure part) ...
StepOK(e, idx) ==
  CASE e.ev = "BooleanOp" -> BooleanOpOK(e, idx)
    [] e.ev = "RectClip" -> RectClipOK(e, idx)
    [] e.ev = "RectClipLines" -> RectClipLinesOK(e, idx)
    [] e.ev = "Measure" -> MeasureOK(e, idx)
    [] e.ev = "Trim" -> TrimOK(e, idx)
    [] e.ev = "Simplify" -> SimplifyOK(e, idx)
    [] OTHER -> Chk("UNKNOWN-EVENT", idx, FALSE)

\* ... and its effect on the system state
StepEffect(e) == UNCHANGED sysvars

TInit == l = 1 /\ rej = <<>> /\ SysInit

TNext ==
  /\ l <= Len(Trace)
  /\ LET e  == Trace[l]
         ok == StepOK(e, l)
         nr == IF ok THEN rej ELSE Append(rej, l)
     IN  /\ rej' = nr
         /\ StepEffect(e)
         /\ (l = Len(Trace)) => PrintT(<<"TRACE_DONE", l, Len(nr)>>)
  /\ l' = l + 1

TSpec == TInit /\ [][TNext]_tvars
=============================================================================
