------------------------------- MODULE Trace -------------------------------
(***************************************************************************)
(* Trace validation: every line of trace.ndjson was recorded from the real *)
(* library; each is replayed as the specification action of the same name. *)
(* A line the action does not accept is recorded in `rej` (with the        *)
(* failing clause printed by Chk) and validation continues, so one run     *)
(* reports every rejected event.  The run is complete only if the          *)
(* TRACE_DONE line is printed with the full length.                        *)
(***************************************************************************)
EXTENDS Clipper2, Json

Trace == ndJsonDeserialize("trace.ndjson")

VARIABLES l, rej
tvars == <<l, rej, engines, offsets, pkg>>

\* does the system action named by the event accept it (pure part) ...
StepOK(e, idx) ==
  CASE ~Tame(e) -> Chk(PrimaryClause(e), idx, FALSE)
    [] e.ev = "BooleanOp" -> BooleanOpOK(e, idx)
    [] e.ev = "RectClip" -> RectClipOK(e, idx)
    [] e.ev = "RectClipLines" -> RectClipLinesOK(e, idx)
    [] e.ev = "Measure" -> MeasureOK(e, idx)
    [] e.ev = "Call" -> CallOK(e, idx)
    [] e.ev = "Util" -> UtilOK(e, idx)
    [] e.ev = "Sweep" -> SweepEvOK(e, idx)
    [] e.ev = "SchedRun" -> SchedRunOK(e, idx)
    [] e.ev = "MagGroup" -> MagGroupOK(e, idx)
    [] e.ev = "DvsI" -> DvsIOK(e, idx)
    [] e.ev = "Mink" -> MinkOK(e, idx)
    [] e.ev = "Inflate" -> InflateOK(e, idx)
    [] e.ev = "TreeOp" -> TreeOpOK(e, idx)
    [] e.ev = "OpenOp" -> OpenOpOK(e, idx)
    [] e.ev = "EngExec" -> EngExecOK(e, idx)
    [] e.ev = "OffExec" -> OffExecOK(e, idx)
    [] e.ev \in {"EngNew", "EngAdd", "OffNew", "OffAdd", "Reset"} -> TRUE
    [] e.ev = "BoolGroup" -> BoolGroupOK(e, idx)
    [] e.ev = "BoolVariants" -> BoolVariantsOK(e, idx)
    [] e.ev = "Trim" -> TrimOK(e, idx)
    [] e.ev = "Simplify" -> SimplifyOK(e, idx)
    [] OTHER -> Chk("UNKNOWN-EVENT", idx, FALSE)

\* ... and its effect on the system state
StepEffect(e) ==
  CASE e.ev = "EngNew"  -> EngNew(e.id, e.kind, e.prec)
    [] e.ev = "EngAdd"  -> EngAdd(e.id, e.paths, e.ptype, e.open)
    [] e.ev = "EngExec" -> EngExecEffect(e.id, e.form)
    [] e.ev = "OffNew"  -> OffNew(e.id, e.miter4, e.arc4, e.pc, e.rev)
    [] e.ev = "OffAdd"  -> OffAdd(e.id, e.paths, e.jt, e.et)
    [] e.ev = "OffExec" -> OffExecEffect(e.id)
    [] e.ev = "Reset"   -> engines' = <<>> /\ offsets' = <<>> /\ UNCHANGED pkg     \* start of the next recorded history
    [] OTHER -> UNCHANGED sysvars

TInit == l = 1 /\ rej = <<>> /\ SysInit

TNext ==
  /\ l <= Len(Trace)
  /\ LET e  == Trace[l]
         ok == StepOK(e, l)
         nr == IF ok THEN rej ELSE Append(rej, l)
     IN  /\ rej' = nr
         /\ StepEffect(e)
         /\ (l = Len(Trace)) => PrintT(<<"TRACE_DONE", l, Len(nr)>>)
  /\ l' = l + 1

TSpec == TInit /\ [][TNext]_tvars
=============================================================================
