----------------------------- MODULE MC_BigInt -----------------------------
(* Model-checks BigInt against TLC's native arithmetic on all pairs of a    *)
(* value set that straddles the limb boundaries.                            *)
EXTENDS BigInt, TLC
Vals == {0, 1, -1, 2, 9999, 10000, 10001, -9999, -10000, -10001, 19999, 12345, -12345, 46340, -46340, 32768,
         99999999 \div 3, 20000, 30000, -30000, 7, -7}
VARIABLE x, y
Init == x \in Vals /\ y \in Vals
Next == UNCHANGED <<x, y>>
Small(v) == v > -46341 /\ v < 46341
Inv ==
  LET a == FromInt(x) b == FromInt(y) IN
  /\ WellFormed(a) /\ ToInt(a) = x
  /\ WellFormed(Add(a, b)) /\ ToInt(Add(a, b)) = x + y
  /\ WellFormed(Sub(a, b)) /\ ToInt(Sub(a, b)) = x - y
  /\ Cmp(a, b) = (IF x < y THEN -1 ELSE IF x > y THEN 1 ELSE 0)
  /\ (Small(x) /\ Small(y)) => (WellFormed(Mul(a, b)) /\ ToInt(Mul(a, b)) = x * y)
  \* beyond the native range: (x*y)*(x*y) against ((x*x)*(y*y)), and distributivity
  /\ Mul(Mul(a, b), Mul(a, b)) = Mul(Mul(a, a), Mul(b, b))
  /\ Mul(Add(a, b), Add(a, b)) = Add(Add(Mul(a, a), Mul(b, b)), Add(Mul(a, b), Mul(a, b)))
  /\ WellFormed(Mul(Mul(a, b), Mul(a, b)))
=============================================================================
