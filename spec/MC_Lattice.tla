----------------------------- MODULE MC_Lattice -----------------------------
(***************************************************************************)
(* Theorems of the region semantics that C17 and C19 lean on, checked on   *)
(* every (subject triangle, clip triangle) pair of a 3x3 lattice (scaled   *)
(* by 4) at all off-edge probes:                                           *)
(*  - the winding number is invariant under rotating a path's start vertex *)
(*    and under repeating a vertex, changes sign under reversal, is        *)
(*    preserved by the four rotations of the lattice and negated by the    *)
(*    four reflections (SymPt of Clipper2.tla);                            *)
(*  - the fill rules behave accordingly (EvenOdd ignores reversal,         *)
(*    Positive/Negative exchange under reversal and reflection);           *)
(*  - the four clip types satisfy the set identities of C19 pointwise and  *)
(*    Union / Intersection / Xor are symmetric in subject and clip.        *)
(* These are properties of the SPECIFICATION (they make the C17/C19 trace  *)
(* clauses meaningful); they say nothing about the code by themselves.     *)
(***************************************************************************)
EXTENDS Clipper2

L == {0, 4, 8}
Pts == {<<x, y>> : x \in L, y \in L}
LessP(p, q) == p[1] < q[1] \/ (p[1] = q[1] /\ p[2] < q[2])
Tris == {<<a, b, c>> \in Pts \X Pts \X Pts : Orient(a, b, c) # 0 /\ LessP(a, b) /\ LessP(a, c)}
Probes == {<<x, y>> : x \in {-1, 1, 2, 5, 7, 9}, y \in {-1, 1, 3, 6, 7, 9}}

VARIABLES s, c, phase
\* the subject is chosen in the initial state and the clip in the first step, so that TLC's workers share the work
Init == s \in Tris /\ c = <<>> /\ phase = 0 /\ SysInit
Next == phase = 0 /\ phase' = 1 /\ c' \in Tris /\ UNCHANGED <<s, engines, offsets, pkg>>

Off(p, t) == ~OnClosedPath(p, t)

WindingTheorems ==
  phase = 0 =>
  \A p \in Probes : Off(p, s) =>
    /\ \A k \in 0..2 : WnPath(p, Rotate(s, k)) = WnPath(p, s)
    /\ WnPath(p, Append(s, s[1])) = WnPath(p, s)
    /\ WnPath(p, <<s[1], s[2], s[2], s[3]>>) = WnPath(p, s)
    /\ WnPath(p, RevPath(s)) = -WnPath(p, s)
    /\ \A k \in 0..3 : WnPath(SymPt(k, p), MapPath(k, s)) = WnPath(p, s)
    /\ \A k \in 4..7 : WnPath(SymPt(k, p), MapPath(k, s)) = -WnPath(p, s)

FillTheorems ==
  phase = 0 =>
  \A p \in Probes : Off(p, s) =>
    LET w == WnPath(p, s) IN
    /\ Fill(0, w) = Fill(0, -w) /\ Fill(1, w) = Fill(1, -w)
    /\ Fill(2, w) = Fill(3, -w) /\ Fill(3, w) = Fill(2, -w)

SetTheorems ==
  phase = 1 =>
  \A p \in Probes : (Off(p, s) /\ Off(p, c)) =>
    \A fr \in 0..3 :
      LET E(ct) == Expected(ct, fr, <<s>>, <<c>>, p)
          Er(ct) == Expected(ct, fr, <<c>>, <<s>>, p) IN
      /\ E(4) = (E(2) /\ ~E(1))
      /\ E(3) = (InSet(fr, <<s>>, p) /\ ~E(1))
      /\ ~(E(3) /\ E(1)) /\ ~(E(3) /\ Er(3)) /\ ~(E(1) /\ Er(3))
      /\ E(2) = (E(3) \/ E(1) \/ Er(3))
      /\ E(1) = Er(1) /\ E(2) = Er(2) /\ E(4) = Er(4)
      /\ Expected(2, fr, <<s>>, <<>>, p) = InSet(fr, <<s>>, p)
=============================================================================
