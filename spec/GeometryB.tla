----------------------------- MODULE GeometryB -----------------------------
(***************************************************************************)
(* The exact predicates of Geometry.tla over arbitrary-precision integers  *)
(* (BigInt.tla).  Points are pairs of BigInt values.  Used wherever        *)
(* coordinates or intermediate products leave TLC's native 32-bit range:   *)
(* C13 (magnitudes up to 2^61), C14 (exactness up to 2^29, where 64-bit    *)
(* float detours lose bits), C16 (fourth-degree distance comparisons).     *)
(* MC_GeometryB checks that these operators agree with the native ones of  *)
(* Geometry.tla on a small lattice, so the two cannot drift apart.         *)
(***************************************************************************)
EXTENDS BigInt

BPt(p) == <<FromInt(p[1]), FromInt(p[2])>>               \* native point -> big point
BPath(path) == [i \in 1..Len(path) |-> BPt(path[i])]
BPaths(paths) == [k \in 1..Len(paths) |-> BPath(paths[k])]

CrossB(ax, ay, bx, by) == Sub(Mul(ax, by), Mul(ay, bx))
DotB(ax, ay, bx, by)   == Add(Mul(ax, bx), Mul(ay, by))

\* sign of the orientation of c relative to a -> b
OrientB(a, b, c) == CrossB(Sub(b[1], a[1]), Sub(b[2], a[2]), Sub(c[1], a[1]), Sub(c[2], a[2]))
OrientSgnB(a, b, c) == Sign(OrientB(a, b, c))
CollinearB(a, b, c) == OrientSgnB(a, b, c) = 0

LeB(x, y) == Cmp(x, y) <= 0
LtB(x, y) == Cmp(x, y) < 0
MinB(x, y) == IF LeB(x, y) THEN x ELSE y
MaxB(x, y) == IF LeB(x, y) THEN y ELSE x

NxtB(path, i) == path[(i % Len(path)) + 1]

EdgeWB(p, a, b) ==
  IF LeB(a[2], p[2])
  THEN IF LtB(p[2], b[2]) /\ OrientSgnB(a, b, p) > 0 THEN  1 ELSE 0
  ELSE IF LeB(b[2], p[2]) /\ OrientSgnB(a, b, p) < 0 THEN -1 ELSE 0

WnPathB(p, path) ==
  LET n == Len(path)
      f[i \in 0..n] == IF i = 0 THEN 0 ELSE f[i - 1] + EdgeWB(p, path[i], NxtB(path, i))
  IN  IF n < 2 THEN 0 ELSE f[n]

WnPathsB(p, paths) ==
  LET n == Len(paths)
      f[k \in 0..n] == IF k = 0 THEN 0 ELSE f[k - 1] + WnPathB(p, paths[k])
  IN  f[n]

OnSegB(p, a, b) ==
  /\ OrientSgnB(a, b, p) = 0
  /\ LeB(MinB(a[1], b[1]), p[1]) /\ LeB(p[1], MaxB(a[1], b[1]))
  /\ LeB(MinB(a[2], b[2]), p[2]) /\ LeB(p[2], MaxB(a[2], b[2]))

OnClosedPathB(p, path) == \E i \in 1..Len(path) : OnSegB(p, path[i], NxtB(path, i))

\* doubled signed area, exact (shoelace)
Area2B(path) ==
  LET n == Len(path)
      f[i \in 0..n] == IF i = 0 THEN Zero
                       ELSE Add(f[i - 1], CrossB(path[i][1], path[i][2], NxtB(path, i)[1], NxtB(path, i)[2]))
  IN  IF n < 3 THEN Zero ELSE f[n]

\* squared distance comparison:  dist(p, line ab)^2  <=  en/ed * 1   i.e.  cross^2 * ed <= en * len2   (ed > 0)
\* en, ed are BigInt numerator/denominator of epsilon^2
PerpWithinB(p, a, b, en, ed) ==
  LET dx == Sub(b[1], a[1]) dy == Sub(b[2], a[2])
      cr == CrossB(dx, dy, Sub(p[1], a[1]), Sub(p[2], a[2]))
      l2 == Add(Mul(dx, dx), Mul(dy, dy))
  IN  IF Sign(l2) = 0 THEN TRUE                      \* degenerate line: the library treats the distance as 0
      ELSE Cmp(Mul(Mul(cr, cr), ed), Mul(en, l2)) <= 0
=============================================================================
