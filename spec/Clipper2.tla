------------------------------ MODULE Clipper2 ------------------------------
(***************************************************************************)
(* The go-clipper2 library as a state machine.                             *)
(*                                                                         *)
(* State: the engine, offset and rectangle-clip objects a client has       *)
(* created, each reduced to what may influence a later answer, and `pkg`,  *)
(* the package-level mutable state (which the library must not have).      *)
(* Actions: the exported operations.  The value an operation returns is    *)
(* not determined by the specification (any vertex list describing the     *)
(* right region is acceptable); an action therefore takes the *observed*   *)
(* result as a parameter and is enabled exactly when that result stands in *)
(* the required relation to the arguments and to the object's state.  The  *)
(* relation is evaluated at a finite set of probe points supplied with the *)
(* observation: the specification decides which probes are outside the     *)
(* rounding band and what the answer there has to be.                      *)
(*                                                                         *)
(* An observation `e` is a record (one trace event).  Check clauses are    *)
(* selected by e.chk so that one recorded call can be validated against    *)
(* one property at a time; Chk prints the failing clause.                  *)
(***************************************************************************)
EXTENDS Sweep, TLC

VARIABLES engines,   \* id -> [kind, prec, subj, clip, open, pc, rev, usedTree, nexec]
          offsets,   \* id -> [groups, miter, arc, pc, rev]
          pkg        \* package-level mutable state: must stay the empty record (C18)

sysvars == <<engines, offsets, pkg>>

SysInit == engines = <<>> /\ offsets = <<>> /\ pkg = [x \in {} |-> 0]

Has(e, c) == \E i \in 1..Len(e.chk) : e.chk[i] = c

\* evaluates to cond; prints the clause name and event index when it is false
Chk(name, idx, cond) == cond \/ (PrintT(<<"FAIL", name, idx>>) /\ FALSE)
\* diagnostic only: names the conjunct of a clause that failed (printed once per failing evaluation)
Dt(name, cond) == cond \/ (PrintT(<<"DETAIL", name>>) /\ FALSE)

\* the same, and when the clause fails additionally reports whether the signature `fcond` of the listed
\* finding `fname` holds for this event (known_findings.json matches on that marker)
ChkF(name, idx, cond, fname, fcond) ==
  cond \/ (PrintT(<<"FAIL", name, idx>>) /\ (fcond => PrintT(<<"FINDING", fname, idx>>)) /\ FALSE)
ChkF4(name, idx, cond, f1, c1, f2, c2, f3, c3) ==
  cond \/ (PrintT(<<"FAIL", name, idx>>) /\ (c1 => PrintT(<<"FINDING", f1, idx>>)) /\ (c2 => PrintT(<<"FINDING", f2, idx>>))
               /\ (c3 => PrintT(<<"FINDING", f3, idx>>)) /\ FALSE)
ChkF5(name, idx, cond, f1, c1, f2, c2, f3, c3, f4, c4) ==
  cond \/ (PrintT(<<"FAIL", name, idx>>) /\ (c1 => PrintT(<<"FINDING", f1, idx>>)) /\ (c2 => PrintT(<<"FINDING", f2, idx>>))
               /\ (c3 => PrintT(<<"FINDING", f3, idx>>)) /\ (c4 => PrintT(<<"FINDING", f4, idx>>)) /\ FALSE)
ChkF6(name, idx, cond, f1, c1, f2, c2, f3, c3, f4, c4, f5, c5) ==
  cond \/ (PrintT(<<"FAIL", name, idx>>) /\ (c1 => PrintT(<<"FINDING", f1, idx>>)) /\ (c2 => PrintT(<<"FINDING", f2, idx>>))
               /\ (c3 => PrintT(<<"FINDING", f3, idx>>)) /\ (c4 => PrintT(<<"FINDING", f4, idx>>)) /\ (c5 => PrintT(<<"FINDING", f5, idx>>)) /\ FALSE)
ChkF2(name, idx, cond, f1, c1, f2, c2) ==
  cond \/ (PrintT(<<"FAIL", name, idx>>) /\ (c1 => PrintT(<<"FINDING", f1, idx>>)) /\ (c2 => PrintT(<<"FINDING", f2, idx>>)) /\ FALSE)

(***************************************************************************)
(* Tameness of the recorded results.  The geometry of this module is       *)
(* native 32-bit integer arithmetic, valid for coordinates up to 2^13.     *)
(* Every operation judged natively returns vertices that are input         *)
(* vertices, intersection points, rectangle corners or offset points, i.e. *)
(* within the inputs' magnitude plus a few deltas; a recorded result with  *)
(* a coordinate beyond 4 x that magnitude + 8 |delta| + 64 (result units)  *)
(* is wrong whatever the property, and is rejected under the event's own   *)
(* clause BEFORE any geometry is evaluated on it (which would overflow and *)
(* end the validation run as a tool error instead of a verdict).           *)
(***************************************************************************)
Fld(e, f) == IF f \in DOMAIN e THEN e[f] ELSE <<>>
AbsMaxPath(path) ==
  LET f[i \in 0..Len(path)] == IF i = 0 THEN 0 ELSE Max2(f[i - 1], Max2(Abs(path[i][1]), Abs(path[i][2]))) IN f[Len(path)]
AbsMaxPaths(paths) ==
  LET f[k \in 0..Len(paths)] == IF k = 0 THEN 0 ELSE Max2(f[k - 1], AbsMaxPath(paths[k])) IN f[Len(paths)]
AbsMaxSeq(ints) ==
  LET f[i \in 0..Len(ints)] == IF i = 0 THEN 0 ELSE Max2(f[i - 1], Abs(ints[i])) IN f[Len(ints)]
NativeEvs == {"BooleanOp", "RectClip", "RectClipLines", "Sweep", "Mink", "Inflate", "TreeOp", "OpenOp", "BoolGroup", "BoolVariants",
              "EngExec", "MagGroup"}
InMag(e) ==
  LET m1 == IF e.ev = "EngExec" THEN 0
            ELSE Max2(AbsMaxPaths(Fld(e, "subj")), Max2(AbsMaxPaths(Fld(e, "clip")), IF e.ev = "OpenOp" THEN AbsMaxPaths(e.open) ELSE 0))
      m2 == IF e.ev \in {"RectClip", "RectClipLines", "Inflate"} THEN AbsMaxPaths(Fld(e, "paths")) ELSE 0
      m3 == IF e.ev = "Mink" THEN AbsMaxPath(e.path) + AbsMaxPath(e.pattern) ELSE 0
      m4 == IF e.ev \in {"RectClip", "RectClipLines", "MagGroup"} THEN AbsMaxSeq(e.rect) ELSE 0
      m5 == IF e.ev = "EngExec" THEN 64 ELSE 0            \* the Lifecycle pool
  IN  Max2(Max2(m1, m2), Max2(Max2(m3, m4), m5))
ResUnits(e) == IF e.ev \in {"TreeOp", "OpenOp"} THEN e.k ELSE IF e.ev = "EngExec" THEN 100 ELSE 1
TameBound(e) == (4 * InMag(e) + 64) * ResUnits(e) + 2 * (IF "delta4" \in DOMAIN e THEN Abs(e.delta4) ELSE 0)   \* 2 delta4 = 8 delta
OutMag(e) ==
  LET flds == <<"sol", "solOpen", "uni", "flat", "res", "i", "u", "d", "x", "d2", "us", "uc", "us2", "solSwap", "solClosed", "freshPerm">>
      f[n \in 0..Len(flds)] == IF n = 0 THEN 0 ELSE Max2(f[n - 1], AbsMaxPaths(Fld(e, flds[n])))
      t == IF e.ev \in {"TreeOp", "OpenOp", "EngExec"} THEN AbsMaxPaths([k \in 1..Len(e.tree) |-> e.tree[k].poly]) ELSE 0
      r == IF "rings" \in DOMAIN e THEN AbsMaxPaths([k \in 1..Len(e.rings) |-> e.rings[k].pts]) ELSE 0
      v == IF e.ev = "MagGroup" THEN AbsMaxPaths([n \in 1..Len(e.vars) |-> <<<<AbsMaxPaths(e.vars[n].q), 0>>>>])
           ELSE IF e.ev = "BoolVariants" THEN AbsMaxPaths([n \in 1..Len(e.vars) |-> <<<<AbsMaxPaths(e.vars[n].sol), 0>>>>])
           ELSE IF e.ev = "Mink" THEN AbsMaxPaths(e.kv.q) ELSE 0
  IN  Max2(Max2(f[Len(flds)], t), Max2(r, v))
Tame(e) == e.ev \notin NativeEvs \/ OutMag(e) <= TameBound(e)
PrimaryClause(e) == IF Len(e.chk) > 0 THEN e.chk[1] ELSE "OUT"

(***************************************************************************)
(* Clause groups                                                           *)
(***************************************************************************)
\* C03: the call returned normally and reported success
OutOK(e) == e.out = "ok" /\ e.ok

\* C01 over the probes of the observation
C01OK(e, subj, clip, sol) ==
  \A k \in 1..Len(e.probes) : RegionOKAt(e.ct, e.fr, subj, clip, sol, e.probes[k])

\* drift between the harness's transliteration (used for hints only) and this spec
NoDrift(e, subj, clip) ==
  \A k \in 1..Len(e.gexp) :
     LET p == e.probes[k]
         far == FarClosed(p, subj, Band4) /\ FarClosed(p, clip, Band4)
     IN  IF ~far THEN e.gexp[k] = 2
         ELSE e.gexp[k] = (IF Expected(e.ct, e.fr, subj, clip, p) THEN 1 ELSE 0)

\* C02 over the probes
C02OK(e, sol) ==
  /\ \A k \in 1..Len(sol) : PathCanonical(sol[k])
  /\ \A k \in 1..Len(e.probes) : CanonicalAt(sol, e.rev, e.probes[k])
  \* consequences: the three positive readings agree off the band
  \* (with winding numbers in {0, 1} -- {0, -1} reversed -- EvenOdd, NonZero and Positive coincide)
  \* re-uniting the solution changes nothing outside the band
  /\ Has(e, "UNI") => \A k \in 1..Len(e.probes) : SameRegionAt(sol, e.uni, e.probes[k])

(***************************************************************************)
(* Package-level boolean operation: behaves like a fresh engine that gets  *)
(* the subject and clip sets and executes once; no state is touched.       *)
(***************************************************************************)
BooleanOpOK(e, idx) ==
  /\ Chk("OUT", idx, OutOK(e))
  /\ Has(e, "ARGS") => Chk("ARGS", idx, e.argsSame)
  /\ Has(e, "DET") => Chk("DET", idx, e.sol2same)
  /\ Has(e, "C01") => Chk("C01", idx, C01OK(e, e.subj, e.clip, e.sol))
  /\ Has(e, "C02") => Chk("C02", idx, C02OK(e, e.sol))
  /\ Chk("DRIFT", idx, NoDrift(e, e.subj, e.clip))

BooleanOp(e, idx) == BooleanOpOK(e, idx) /\ UNCHANGED sysvars

(***************************************************************************)
(* Rectangle clipping of closed paths (C06).  rect = <<left, top, right,   *)
(* bottom>> with left < right and top < bottom (y grows downwards in the   *)
(* library's naming; only the interval structure matters here).            *)
(***************************************************************************)
\* a closed path without self-contact: no two non-adjacent edges meet, adjacent ones share only their vertex
SimplePath(path) ==
  LET n == Len(path) IN
  /\ n >= 3
  /\ \A i \in 1..n : path[i] # Nxt(path, i)
  /\ \A i, j \in 1..n : i < j =>
       LET a == path[i] b == Nxt(path, i) c == path[j] d == Nxt(path, j) IN
       IF j = i + 1 THEN ~OnSeg(d, a, b) /\ ~OnSeg(a, c, d)
       ELSE IF i = 1 /\ j = n THEN ~OnSeg(c, a, b) /\ ~OnSeg(b, c, d)
       ELSE ~SegsMeet(a, b, c, d)
RectPath(r) == << <<r[1], r[2]>>, <<r[3], r[2]>>, <<r[3], r[4]>>, <<r[1], r[4]>> >>
RectNonEmpty(r) == r[1] < r[3] /\ r[2] < r[4]
InRect(r, p, g) == r[1] - g <= p[1] /\ p[1] <= r[3] + g /\ r[2] - g <= p[2] /\ p[2] <= r[4] + g
StrictInRect(r, p) == r[1] < p[1] /\ p[1] < r[3] /\ r[2] < p[2] /\ p[2] < r[4]
PathInRect(r, path) == \A i \in 1..Len(path) : InRect(r, path[i], 0)
PathBoundsDisjoint(r, path) ==
  \/ \A i \in 1..Len(path) : path[i][1] < r[1]
  \/ \A i \in 1..Len(path) : path[i][1] > r[3]
  \/ \A i \in 1..Len(path) : path[i][2] < r[2]
  \/ \A i \in 1..Len(path) : path[i][2] > r[4]

C06OK(e) ==
  LET r == e.rect  rp == <<RectPath(e.rect)>> IN
  /\ RectNonEmpty(r)
  \* every result vertex lies within the rectangle grown by one unit
  /\ \A k \in 1..Len(e.res) : \A i \in 1..Len(e.res[k]) : InRect(r, e.res[k][i], 1)
  \* winding number preserved inside, zero outside (off the bands of rectangle and input)
  /\ \A k \in 1..Len(e.probes) :
       LET p == e.probes[k] IN
       (FarClosed(p, rp, Band4) /\ FarClosed(p, e.paths, Band4)) =>
          WnPaths(p, e.res) = (IF StrictInRect(r, p) THEN WnPaths(p, e.paths) ELSE 0)
  \* paths entirely inside are returned unchanged
  /\ \A k \in 1..Len(e.paths) :
       (Len(e.paths[k]) >= 3 /\ PathInRect(r, e.paths[k])) => \E j \in 1..Len(e.res) : e.res[j] = e.paths[k]
  \* paths entirely outside vanish
  /\ (\A k \in 1..Len(e.paths) : Len(e.paths[k]) = 0 \/ PathBoundsDisjoint(r, e.paths[k])) => e.res = <<>>

\* signature of the listed finding "rectclip-even-turns": every clause of C06 holds except that inside the
\* rectangle the winding number differs from the input's by an even number (whole turns of a
\* self-overlapping path around the rectangle are lost: the implementation decides "path contains
\* rectangle" by an even-odd test and closes crossings along the shorter way round the corners)
C06EvenTurns(e) ==
  LET r == e.rect  rp == <<RectPath(e.rect)>> IN
  /\ RectNonEmpty(r)
  /\ \A k \in 1..Len(e.res) : \A i \in 1..Len(e.res[k]) : InRect(r, e.res[k][i], 1)
  /\ \A k \in 1..Len(e.probes) :
       LET p == e.probes[k] IN
       (FarClosed(p, rp, Band4) /\ FarClosed(p, e.paths, Band4)) =>
          IF StrictInRect(r, p) THEN (WnPaths(p, e.res) - WnPaths(p, e.paths)) % 2 = 0 ELSE WnPaths(p, e.res) = 0
  /\ \E k \in 1..Len(e.paths) : ~SimplePath(e.paths[k])       \* only self-overlapping paths can wind more than once

\* signature of the listed finding "rectclip-corners-on-path": a path that never crosses into the rectangle
\* has all four rectangle corners ON its boundary (edges running along the rectangle's sides); the
\* implementation's path1ContainsPath2 then has no inside/outside vote and assumes containment
C06CornersOnPath(e) ==
  \E k \in 1..Len(e.paths) : Len(e.paths[k]) >= 3 /\
     \A c \in 1..4 : OnClosedPath(RectPath(e.rect)[c], e.paths[k])

RectClipOK(e, idx) ==
  /\ Chk("OUT", idx, OutOK(e))
  /\ Has(e, "ARGS") => Chk("ARGS", idx, e.argsSame)
  /\ Has(e, "DET") => Chk("DET", idx, e.res2same)
  /\ Has(e, "C06") => ChkF2("C06", idx, C06OK(e), "rectclip-even-turns", C06EvenTurns(e),
                                                    "rectclip-corners-on-path", C06CornersOnPath(e))

(***************************************************************************)
(* Rectangle clipping of open polylines (C11).  Probes are points ON the   *)
(* input polylines (checked: a probe that is not on a line is a generator  *)
(* error).  Coverage is two-sided so that rounding can never alarm: a      *)
(* point that must be covered has to be within 1.5 of the result, a point  *)
(* that must not be covered has to be farther than 0.5 from it.            *)
(***************************************************************************)
\* on a segment of positive length (zero-length segments are outside C09/C11: the library drops them)
OnOpenPath(p, path) == \E i \in 1..(Len(path) - 1) : path[i] # path[i + 1] /\ OnSeg(p, path[i], path[i + 1])
OnOpenPaths(p, paths) == \E k \in 1..Len(paths) : OnOpenPath(p, paths[k])

\* the vertices of result polyline q follow input polyline `path` in order: there is a
\* non-decreasing assignment of vertices to segments they are near to (within 1 unit) such that
\* two vertices on the same segment advance along its direction (2 units of slack).
\* S[i] is the set of segments vertex i can be assigned to in some valid assignment of q[1..i].
FollowsInOrder(path, q) ==
  /\ Len(path) >= 2
  /\ LET n == Len(q)  m == Len(path) - 1
         Near(v, s) == NearSeg(v, path[s], path[s + 1], 4)
         Fwd(u, v, s) == LET a == path[s] b == path[s + 1] IN
                         Dot(v[1] - u[1], v[2] - u[2], b[1] - a[1], b[2] - a[2]) >= -(2 * LenUB(b[1] - a[1], b[2] - a[2]))
         S[i \in 1..n] == IF i = 1 THEN {s \in 1..m : Near(q[1], s)}
                          ELSE {s \in 1..m : Near(q[i], s) /\ \E t \in S[i - 1] : t < s \/ (t = s /\ Fwd(q[i - 1], q[i], s))}
     IN  S[n] # {}

C11OK(e) ==
  LET r == e.rect  rp == <<RectPath(e.rect)>> IN
  /\ RectNonEmpty(r)
  /\ \A k \in 1..Len(e.res) :
       /\ Len(e.res[k]) >= 2
       /\ \A i \in 1..Len(e.res[k]) : InRect(r, e.res[k][i], 1)
       /\ \E j \in 1..Len(e.paths) : FollowsInOrder(e.paths[j], e.res[k])
  /\ \A k \in 1..Len(e.probes) :
       LET p == e.probes[k] IN
       FarClosed(p, rp, Band4) =>
          IF StrictInRect(r, p) THEN NearOpen(p, e.res, 6) ELSE FarOpen(p, e.res, 2)

RectClipLinesOK(e, idx) ==
  /\ Chk("OUT", idx, OutOK(e))
  /\ Chk("GENERATOR", idx, \A k \in 1..Len(e.probes) : OnOpenPaths(e.probes[k], e.paths))
  /\ Has(e, "ARGS") => Chk("ARGS", idx, e.argsSame)
  /\ Has(e, "DET") => Chk("DET", idx, e.res2same)
  /\ Has(e, "C11") => Chk("C11", idx, C11OK(e))

(***************************************************************************)
(* Exact measures and predicates (C14).  Arguments are native integers up  *)
(* to 2^29 in magnitude; every product is formed in BigInt.                *)
(***************************************************************************)
GB == INSTANCE GeometryB
TS == INSTANCE TrimSM
CS == INSTANCE CallsBase

Pow2_52 == GB!Mul(GB!FromInt(67108864), GB!FromInt(67108864))

\* returned area r (given as 2r) equals A2/2 to float64 rounding (relative 2^-52)
AreaMatches(a2ret, a2int, A2) ==
  /\ a2int
  /\ GB!Cmp(GB!Mul(GB!AbsB(GB!Sub(a2ret, A2)), Pow2_52), GB!AbsB(A2)) <= 0

Area2SetB(set) ==
  LET n == Len(set)
      f[k \in 0..n] == IF k = 0 THEN GB!Zero ELSE GB!Add(f[k - 1], GB!Area2B(GB!BPath(set[k])))
  IN  f[n]

AbsArea2SetB(set) ==
  LET n == Len(set)
      f[k \in 0..n] == IF k = 0 THEN GB!Zero ELSE GB!Add(f[k - 1], GB!AbsB(GB!Area2B(GB!BPath(set[k]))))
  IN  f[n]

OneHorizontal(path) == \A i \in 1..Len(path) : path[i][2] = path[1][2]

PipExpected(pt, path) ==
  IF Len(path) < 3 THEN 2
  ELSE IF GB!OnClosedPathB(GB!BPt(pt), GB!BPath(path)) THEN 0
  ELSE IF (GB!WnPathB(GB!BPt(pt), GB!BPath(path)) % 2) # 0 THEN 1 ELSE 2

C14OK(e) ==
  CASE e.kind = "area"      -> AreaMatches(e.a2, e.a2int, GB!Area2B(GB!BPath(e.path)))
    \* the sum of the per-path areas: every term and every addition is rounded once, so the error is
    \* relative to the sum of the absolute areas, not to the (possibly cancelling) total
    [] e.kind = "areapaths" -> /\ e.a2int
                               /\ GB!Cmp(GB!Mul(GB!AbsB(GB!Sub(e.a2, Area2SetB(e.set))), Pow2_52),
                                         GB!Mul(AbsArea2SetB(e.set), GB!FromInt(2 * Len(e.set) + 2))) <= 0
    [] e.kind = "ispos"     -> e.b = (GB!Sign(GB!Area2B(GB!BPath(e.path))) >= 0)
    [] e.kind = "pip"       -> OneHorizontal(e.path) \/ e.pip = PipExpected(e.pt, e.path)
    [] e.kind = "bounds"    -> IF Len(e.path) = 0 THEN e.rect = <<0, 0, 0, 0>>
                               ELSE e.rect = <<MinX(e.path), MinY(e.path), MaxX(e.path), MaxY(e.path)>>
    [] e.kind = "collinear" -> e.b = GB!CollinearB(GB!BPt(e.tri[1]), GB!BPt(e.tri[2]), GB!BPt(e.tri[3]))
    [] OTHER -> FALSE

MeasureOK(e, idx) ==
  /\ Chk("OUT", idx, OutOK(e))
  /\ Has(e, "ARGS") => Chk("ARGS", idx, e.argsSame)
  /\ Has(e, "DET") => Chk("DET", idx, e.det)
  /\ Has(e, "C14") => Chk("C14", idx, C14OK(e))

(***************************************************************************)
(* TrimCollinear64 (C15): the result must be the result of some terminal   *)
(* state of the TrimSM machine (so it is a sub-sequence from which only    *)
(* vertices collinear with their current neighbours were removed and in    *)
(* which none is left), plus the consequences the property names.          *)
(***************************************************************************)
AllEqualPts(path) == \A i \in 1..Len(path) : path[i] = path[1]

NoThreeCollinearCyclic(path) ==
  Len(path) >= 3 => \A i \in 1..Len(path) :
     ~GB!CollinearB(GB!BPt(Prv(path, i)), GB!BPt(path[i]), GB!BPt(Nxt(path, i)))

\* (the call is made on the path multiplied by e.k; e.mapOK: every returned coordinate was a multiple of e.k, as a
\*  sub-sequence of the input must be; path and results are in base coordinates, all conditions are scale invariant)
C15OK(e) ==
  LET P == e.path R == e.res IN
  e.mapOK /\
  IF e.isOpen
  THEN \/ Len(P) < 2 \/ AllEqualPts(P)                       \* no polyline: outside the property
       \/ /\ Len(R) >= 2 /\ R[1] = P[1] /\ R[Len(R)] = P[Len(P)]
          /\ TS!Accepts(P, FALSE, R)
  ELSE /\ TS!Accepts(P, TRUE, R)
       /\ GB!Area2B(GB!BPath(R)) = GB!Area2B(GB!BPath(P))
       /\ NoThreeCollinearCyclic(R)
       /\ e.res2 = R
       /\ \A k \in 1..Len(e.probes) :
            LET p == e.probes[k] IN
            ~GB!OnClosedPathB(GB!BPt(p), GB!BPath(P)) =>
               GB!WnPathB(GB!BPt(p), GB!BPath(R)) = GB!WnPathB(GB!BPt(p), GB!BPath(P))

TrimOK(e, idx) ==
  /\ Chk("OUT", idx, OutOK(e))
  /\ Has(e, "ARGS") => Chk("ARGS", idx, e.argsSame)
  /\ Has(e, "DET") => Chk("DET", idx, e.det)
  /\ Has(e, "C15") => Chk("C15", idx, C15OK(e))

(***************************************************************************)
(* SimplifyPath (C16).  The removal order recorded from the implementation *)
(* must be a behaviour of the greedy-removal machine: every removed vertex *)
(* was, at that moment, within epsilon of the line through its current     *)
(* retained neighbours, and the final state is terminal (no retained       *)
(* vertex is within epsilon unless only two remain).  Comparisons are      *)
(* exact rationals with a relative margin of 10^-9 in the direction that   *)
(* accepts the implementation's float64 rounding.                          *)
(***************************************************************************)
Big(x) == GB!FromInt(x)
M9 == Big(1000000000)

SimplifyOK16(e) ==
  LET P == e.path  n == Len(P)  BP == GB!BPath(P)
      rem == [j \in 1..Len(e.removed) |-> e.removed[j] + 1]
      RemSet(k) == {rem[j] : j \in 1..k}
      en == GB!Mul(Big(e.epsN), Big(e.epsN))  ed == GB!Mul(Big(e.epsD), Big(e.epsD))
      enUp == GB!Mul(en, GB!Add(M9, Big(1)))  edUp == GB!Mul(ed, M9)     \* eps^2 (1 + 1e-9)
      enDn == GB!Mul(en, GB!Sub(M9, Big(1)))                            \* eps^2 (1 - 1e-9)
      Within(S, i, num, den) == GB!PerpWithinB(BP[i], BP[TS!PrevRet(n, S, i)], BP[TS!NextRet(n, S, i)], num, den)
      Protected(i) == ~e.closed /\ (i = 1 \/ i = n)
      All == RemSet(Len(rem))
  IN
  IF n < 4 THEN e.removed = <<>> /\ e.res = P
  ELSE
  /\ \A j \in 1..Len(rem) : rem[j] \in 1..n /\ rem[j] \notin RemSet(j - 1) /\ ~Protected(rem[j])
  \* every step is an enabled Remove of the machine
  /\ \A j \in 1..Len(rem) : n - (j - 1) > 2 /\ Within(RemSet(j - 1), rem[j], enUp, edUp)
  /\ e.res = TS!SubPath(P, All)
  \* terminal
  /\ \/ n - Cardinality(All) <= 2
     \/ \A i \in 1..n : (i \notin All /\ ~Protected(i)) => ~Within(All, i, enDn, edUp)
  \* epsilon 0: area of a closed path unchanged
  /\ (e.epsN = 0 /\ e.closed) => GB!Area2B(GB!BPath(e.res)) = GB!Area2B(BP)
  \* translation / power-of-two scaling do not change the index set
  /\ \A v \in 1..Len(e.vars) : {e.vars[v].removed[j] + 1 : j \in 1..Len(e.vars[v].removed)} = All

SimplifyOK(e, idx) ==
  /\ Chk("OUT", idx, OutOK(e))
  /\ Has(e, "ARGS") => Chk("ARGS", idx, e.argsSame)
  /\ Has(e, "DET") => Chk("DET", idx, e.det)
  /\ Has(e, "C16") => Chk("C16", idx, SimplifyOK16(e))
  \* the same call made on the path translated by e.off (anywhere inside +-2^52): e.path / e.res are in base
  \* coordinates, and every condition of SimplifyOK16 is an exact, translation-invariant rational comparison
  /\ Has(e, "C13") => Chk("C13", idx, SimplifyOK16(e))

(***************************************************************************)
(* The four clip types on one input (C19).  In(x, p): p is in the region   *)
(* a result path set x describes (non-zero reading; by C02 all readings    *)
(* agree).  Area identities use exact doubled areas; the tolerance is      *)
(* 2 units x total edge length, over-estimated by the 1-norm edge length   *)
(* of all inputs and results involved and doubled because areas are.       *)
(***************************************************************************)
In(x, p) == WnPaths(p, x) # 0

C19OK(e) ==
  LET all == <<e.subj, e.clip, e.i, e.u, e.d, e.x, e.d2, e.us, e.uc>>
      FarAll(p) == \A k \in 1..Len(all) : FarClosed(p, all[k], Band4)
      L == Perim1Paths(e.subj) + Perim1Paths(e.clip) + Perim1Paths(e.i) + Perim1Paths(e.u) + Perim1Paths(e.d)
           + Perim1Paths(e.x) + Perim1Paths(e.d2) + Perim1Paths(e.us) + Perim1Paths(e.uc)
      tol == 4 * L
      aI == Area2Paths(e.i)  aU == Area2Paths(e.u)  aD == Area2Paths(e.d)  aX == Area2Paths(e.x)
      aD2 == Area2Paths(e.d2)  aS == Area2Paths(e.us)  aC == Area2Paths(e.uc)
  IN
  /\ Abs((aU + aI) - (aS + aC)) <= tol
  /\ Abs(aX - (aU - aI)) <= tol
  /\ Abs(aD - (aS - aI)) <= tol
  /\ Abs((aD + aI + aD2) - aU) <= tol
  /\ e.us = e.us2
  /\ \A k \in 1..Len(e.probes) :
       LET p == e.probes[k] IN
       FarAll(p) =>
         /\ In(e.x, p) = (In(e.u, p) /\ ~In(e.i, p))
         /\ In(e.d, p) = (In(e.us, p) /\ ~In(e.i, p))
         /\ ~(In(e.d, p) /\ In(e.i, p)) /\ ~(In(e.d, p) /\ In(e.d2, p)) /\ ~(In(e.i, p) /\ In(e.d2, p))
         /\ In(e.u, p) = (In(e.d, p) \/ In(e.i, p) \/ In(e.d2, p))

BoolGroupOK(e, idx) ==
  /\ Chk("OUT", idx, OutOK(e))
  /\ Has(e, "ARGS") => Chk("ARGS", idx, e.argsSame)
  /\ Has(e, "C19") => Chk("C19", idx, C19OK(e))

(***************************************************************************)
(* Independence of spelling (C17).  Every variant carries its own inputs;  *)
(* the specification first checks that they really are the stated         *)
(* re-spelling of the base inputs (a mismatch is a generator error), then  *)
(* that the variant's region equals the base region at the (mapped)        *)
(* probes outside the band of the base inputs.                             *)
(***************************************************************************)
SymPt(k, p) == CASE k = 0 -> p
                 [] k = 1 -> <<-p[2], p[1]>>
                 [] k = 2 -> <<-p[1], -p[2]>>
                 [] k = 3 -> <<p[2], -p[1]>>
                 [] k = 4 -> <<-p[1], p[2]>>
                 [] k = 5 -> <<p[1], -p[2]>>
                 [] k = 6 -> <<p[2], p[1]>>
                 [] OTHER -> <<-p[2], -p[1]>>
MapPath(k, path) == [i \in 1..Len(path) |-> SymPt(k, path[i])]
MapPaths(k, paths) == [j \in 1..Len(paths) |-> MapPath(k, paths[j])]
RevPath(path) == [i \in 1..Len(path) |-> path[Len(path) + 1 - i]]
RevPaths(paths) == [j \in 1..Len(paths) |-> RevPath(paths[j])]
\* replace path number j (counted over subject then clip) by f(path)
WithPath(subj, clip, j, np) ==
  IF j <= Len(subj) THEN <<[subj EXCEPT ![j] = np], clip>> ELSE <<subj, [clip EXCEPT ![j - Len(subj)] = np]>>
PathNo(subj, clip, j) == IF j <= Len(subj) THEN subj[j] ELSE clip[j - Len(subj)]

VariantInputs(e, v) ==      \* <<subject, clip, fill rule>> the variant must have been run with
  LET q == IF v.j >= 1 /\ v.j <= Len(e.subj) + Len(e.clip) THEN PathNo(e.subj, e.clip, v.j) ELSE <<>> IN
  CASE v.kind = "perm"     -> <<[i \in 1..Len(e.subj) |-> e.subj[v.perm[i]]], e.clip, e.fr>>
    [] v.kind = "rot"      -> WithPath(e.subj, e.clip, v.j, Rotate(q, v.k)) \o <<e.fr>>
    [] v.kind = "dupclose" -> WithPath(e.subj, e.clip, v.j, Append(q, q[1])) \o <<e.fr>>
    [] v.kind = "dupany"   -> WithPath(e.subj, e.clip, v.j, SubSeq(q, 1, v.k) \o <<q[v.k]>> \o SubSeq(q, v.k + 1, Len(q))) \o <<e.fr>>
    [] v.kind = "rev1"     -> WithPath(e.subj, e.clip, v.j, RevPath(q)) \o <<e.fr>>
    [] v.kind = "revall"   -> <<RevPaths(e.subj), RevPaths(e.clip), e.fr>>
    [] v.kind = "revneg"   -> <<RevPaths(e.subj), RevPaths(e.clip), 5 - e.fr>>
    [] v.kind = "swap"     -> <<e.clip, e.subj, e.fr>>
    \* a reflection (k >= 4) reverses every orientation, so winding numbers change sign: under
    \* Positive / Negative the mirrored region is the one of the exchanged rule
    [] v.kind = "sym"      -> <<MapPaths(v.k, e.subj), MapPaths(v.k, e.clip),
                                IF v.k >= 4 /\ e.fr \in {2, 3} THEN 5 - e.fr ELSE e.fr>>
    [] OTHER -> <<>>

VariantLegal(e, v) ==
  /\ v.ct = e.ct
  /\ v.kind = "rev1" => e.fr = 0
  /\ v.kind = "revall" => e.fr \in {0, 1}
  /\ v.kind = "revneg" => e.fr \in {2, 3}
  /\ v.kind = "swap" => e.ct \in {1, 2, 4}
  /\ v.kind = "perm" => {v.perm[i] : i \in 1..Len(v.perm)} = 1..Len(e.subj)
  /\ VariantInputs(e, v) = <<v.subj, v.clip, v.fr>>

C17OK(e) ==
  /\ e.sol2same
  /\ \A n \in 1..Len(e.vars) :
       LET v == e.vars[n] IN
       /\ v.out = "ok"
       /\ \A k \in 1..Len(e.probes) :
            LET p == e.probes[k]
                q == IF v.kind = "sym" THEN SymPt(v.k, p) ELSE p IN
            (FarClosed(p, e.subj, Band4) /\ FarClosed(p, e.clip, Band4)) =>
               /\ In(v.sol, q) = In(e.sol, p)
               /\ In(v.sol, q) = Expected(v.ct, v.fr, v.subj, v.clip, q)

BoolVariantsOK(e, idx) ==
  /\ Chk("OUT", idx, OutOK(e))
  /\ Chk("GENERATOR", idx, \A n \in 1..Len(e.vars) : VariantLegal(e, e.vars[n]))
  /\ Has(e, "C17") => Chk("C17", idx, C17OK(e))

(***************************************************************************)
(* Engine objects (C12).  An engine is reduced to the paths it was given   *)
(* (closed subject, closed clip, open subject, each in the order added and *)
(* in integer units, i.e. after quantisation for the floating-point kind)  *)
(* plus two history flags that exist in the implementation (a tree         *)
(* execution happened, number of executions) and must NOT be observable.   *)
(* Execute does not change the path state; its result must be the one a    *)
(* fresh engine returns for the same paths (observed: e.fresh) and must    *)
(* describe the region the paths in the SPECIFICATION's state demand.      *)
(***************************************************************************)
Pow10(p) == CASE p = 0 -> 1 [] p = 1 -> 10 [] p = 2 -> 100 [] p = 3 -> 1000 [] OTHER -> 10000
ScalePaths(paths, k) == [j \in 1..Len(paths) |-> [i \in 1..Len(paths[j]) |-> <<paths[j][i][1] * k, paths[j][i][2] * k>>]]

NewEngineRec(kind, prec) ==
  [kind |-> kind, prec |-> prec, subj |-> <<>>, clip |-> <<>>, open |-> <<>>, usedTree |-> FALSE, nexec |-> 0]

EngNew(id, kind, prec) ==
  /\ engines' = (id :> NewEngineRec(kind, prec)) @@ engines
  /\ UNCHANGED <<offsets, pkg>>

EngAdd(id, paths, ptype, isOpen) ==
  LET g == engines[id]
      ps == IF g.kind = "D" THEN ScalePaths(paths, Pow10(g.prec)) ELSE paths
  IN
  /\ engines' = [engines EXCEPT ![id] =
        IF isOpen THEN (IF ptype = 0 THEN [g EXCEPT !.open = @ \o ps] ELSE g)     \* open clip paths are not a thing
        ELSE IF ptype = 0 THEN [g EXCEPT !.subj = @ \o ps] ELSE [g EXCEPT !.clip = @ \o ps]]
  /\ UNCHANGED <<offsets, pkg>>

EngExecEffect(id, form) ==
  /\ engines' = [engines EXCEPT ![id].nexec = @ + 1, ![id].usedTree = @ \/ (form = "tree")]
  /\ UNCHANGED <<offsets, pkg>>

\* polygons of a tree observation (list of [parent |-> index or 0, poly |-> path] in depth-first order)
TreePolys(tree) == [k \in 1..Len(tree) |-> tree[k].poly]

C12OK(e) ==
  LET g == engines[e.id]
      closedSol == IF e.form = "tree" THEN TreePolys(e.tree) ELSE e.sol IN
  /\ e.id \in DOMAIN engines
  \* same answer as a fresh engine given the same paths in one call (same add order: same sequences)
  /\ e.sol = e.fresh.sol /\ e.solOpen = e.fresh.solOpen /\ e.tree = e.fresh.tree
  \* and the answer is the one the paths in the specification's state demand
  /\ \A k \in 1..Len(e.probes) : RegionOKAt(e.ct, e.fr, g.subj, g.clip, closedSol, e.probes[k])
  \* a fresh engine given the paths in another order describes the same region
  /\ \A k \in 1..Len(e.probes) :
        (FarClosed(e.probes[k], g.subj, Band4) /\ FarClosed(e.probes[k], g.clip, Band4))
           => (In(closedSol, e.probes[k]) = In(e.freshPerm, e.probes[k]))

EngExecOK(e, idx) ==
  /\ Chk("OUT", idx, OutOK(e))
  /\ Has(e, "ARGS") => Chk("ARGS", idx, e.argsSame)
  /\ Has(e, "C12") => Chk("C12", idx, C12OK(e))

(***************************************************************************)
(* ClipperOffset objects (C12 part): groups accumulate; Execute64 answers  *)
(* like a fresh object with the same groups.                               *)
(***************************************************************************)
OffNew(id, miter4, arc4, pc, rev) ==
  /\ offsets' = (id :> [miter4 |-> miter4, arc4 |-> arc4, pc |-> pc, rev |-> rev, groups |-> <<>>, nexec |-> 0]) @@ offsets
  /\ UNCHANGED <<engines, pkg>>
OffAdd(id, paths, jt, et) ==
  /\ offsets' = [offsets EXCEPT ![id].groups = Append(@, [paths |-> paths, jt |-> jt, et |-> et])]
  /\ UNCHANGED <<engines, pkg>>
OffExecEffect(id) ==
  /\ offsets' = [offsets EXCEPT ![id].nexec = @ + 1]
  /\ UNCHANGED <<engines, pkg>>
OffExecOK(e, idx) ==
  /\ Chk("OUT", idx, OutOK(e))
  /\ Has(e, "C12") => Chk("C12", idx, e.id \in DOMAIN offsets /\ e.sol = e.fresh.sol
                                       /\ Len(offsets[e.id].groups) = e.ngroups)

(***************************************************************************)
(* Totality (C03): a replayed call of the degenerate call space returned   *)
(* the outcome the specification names (normal return, or the documented   *)
(* precision panic and nothing else) and, for engine executions, success.  *)
(***************************************************************************)
CallOK(e, idx) == Chk("C03", idx, e.out = CS!Outcome(e.call) /\ e.ok)

(***************************************************************************)
(* PolyTree results (C04).  e.tree lists the nodes in depth-first order:   *)
(* [parent |-> 0 (root) or index, poly, isHole, level]; e.flat is the      *)
(* flat Paths result for the same inputs (both in result units).           *)
(***************************************************************************)
CountCyclic(p, paths) == Cardinality({j \in 1..Len(paths) : SameCyclic(paths[j], p)})

InOrNear(path, v) == WnPath(v, path) # 0 \/ ~FarClosedPath(v, path, Band4)

\* smallest filled (positive) polygon of the tree that contains p; 0 if none
InnermostOuter(tree, p) ==
  LET cands == {k \in 1..Len(tree) : Area2(tree[k].poly) > 0 /\ WnPath(p, tree[k].poly) # 0} IN
  IF cands = {} THEN 0
  ELSE CHOOSE k \in cands : \A m \in cands : Abs(Area2(tree[k].poly)) <= Abs(Area2(tree[m].poly))

\* thinner than the rounding band: doubled area at most 4 x (1-norm) perimeter, i.e. mean width <= 2
Sliver(path) == Abs(Area2(path)) <= 4 * Perim1(path)
\* contained in one horizontal or vertical line (the tree builder skips such paths: empty bounds)
LineDegenerate(path) == (\A i \in 1..Len(path) : path[i][2] = path[1][2]) \/ (\A i \in 1..Len(path) : path[i][1] = path[1][1])

\* a vertex at which the path turns back on itself within the band: one of its neighbours lies within the band of the
\* edge to the other (a needle / spike left in a result ring)
NeedleTip(path, i) ==
  LET a == Prv(path, i) v == path[i] b == Nxt(path, i) IN NearSeg(a, v, b, Band4) \/ NearSeg(b, a, v, Band4)

\* flat: the flat result to compare with; w: what is not demanded (signatures of listed findings), a record
\*   sliver: orientation and containment of nodes thinner than the band;  needle: containment of needle tips
NoWaive == [sliver |-> FALSE, needle |-> FALSE]
C04Gen(e, flat, w) ==
  LET T == e.tree  polys == [k \in 1..Len(e.tree) |-> e.tree[k].poly]
      FarT(p) == FarClosed(p, polys, Band4) IN
  \* the same polygons as the flat result, each exactly once
  /\ Dt(<<"tree.count", Len(T), Len(flat)>>, Len(T) = Len(flat))
  /\ \A k \in 1..Len(T) : Dt(<<"tree.multiset", k>>, CountCyclic(T[k].poly, polys) = CountCyclic(T[k].poly, flat))
  \* structure: depth-first order, levels, IsHole <=> negative orientation <=> even level >= 2
  /\ \A k \in 1..Len(T) :
       /\ Dt(<<"tree.order", k>>, T[k].parent \in 0..(k - 1))
       /\ Dt(<<"tree.level", k>>, T[k].level = (IF T[k].parent = 0 THEN 1 ELSE T[T[k].parent].level + 1))
       /\ Dt(<<"tree.ishole-level", k>>, T[k].isHole = (T[k].level % 2 = 0))
       /\ Dt(<<"tree.ishole-orientation", k>>, (w.sliver /\ Sliver(T[k].poly)) \/ T[k].isHole = (Area2(T[k].poly) < 0))
  \* every node lies inside its parent (vertices within the band; interior probes inside)
  /\ \A k \in 1..Len(T) : T[k].parent # 0 =>
       \A i \in 1..Len(T[k].poly) : Dt(<<"tree.vertex-in-parent", k, i>>,
            \/ InOrNear(T[T[k].parent].poly, T[k].poly[i])
            \/ (w.sliver /\ Sliver(T[k].poly))
            \/ (w.needle /\ NeedleTip(T[k].poly, i)))
  /\ \A n \in 1..Len(e.probes) :
       LET p == e.probes[n] IN
       FarT(p) =>
         /\ \A k \in 1..Len(T) : Dt(<<"tree.probe-in-parent", k, p>>, (T[k].parent # 0 /\ WnPath(p, T[k].poly) # 0) => WnPath(p, T[T[k].parent].poly) # 0)
         \* ... and inside no sibling
         /\ \A k, m \in 1..Len(T) : Dt(<<"tree.sibling", k, m, p>>, (k < m /\ T[k].parent = T[m].parent) => ~(WnPath(p, T[k].poly) # 0 /\ WnPath(p, T[m].poly) # 0))
         \* every hole's parent is the innermost filled boundary containing it
         \* (decided at probes inside the hole but in none of its own children)
         /\ \A k \in 1..Len(T) : Dt(<<"tree.innermost", k, p>>,
              (T[k].isHole /\ WnPath(p, T[k].poly) # 0 /\ \A c \in 1..Len(T) : T[c].parent = k => WnPath(p, T[c].poly) = 0)
                 => InnermostOuter(T, p) = T[k].parent)

C04OK(e) == C04Gen(e, e.flat, NoWaive)

\* signature of the listed finding "tree-drops-line-paths": the flat result contains zero-area paths lying in one
\* horizontal / vertical line which the tree builder skips (empty bounds); everything else is as demanded
C04SigLinePaths(e) ==
  LET f == SelectSeq(e.flat, LAMBDA q : ~LineDegenerate(q)) IN Len(f) # Len(e.flat) /\ C04Gen(e, f, NoWaive)
\* signature of the listed finding "tree-sliver-orientation": the only failing clause is the orientation of
\* polygons thinner than the rounding band (the sweep can emit such slivers with either orientation)
C04SigSliver(e) == C04Gen(e, e.flat, [sliver |-> TRUE, needle |-> FALSE])
\* signature of the listed finding "tree-needle-vertex": the only failing clause is "vertex inside the parent", at
\* needle tips of a result ring (a spike of zero width that reaches outside the parent)
C04SigNeedle(e) == C04Gen(e, e.flat, [sliver |-> FALSE, needle |-> TRUE])

\* signature of the listed finding "tree-touching": two different result polygons come within the rounding
\* band of each other (a vertex of one within 2 units of an edge of the other), which is where the
\* implementation's containment test (path1InsidePath2) cannot decide the nesting
TouchingPolys(e) ==
  \E k, m \in 1..Len(e.tree) : k # m /\
     \E i \in 1..Len(e.tree[k].poly) : ~FarClosedPath(e.tree[k].poly[i], e.tree[m].poly, Band4)

\* ... and every node really lies inside the parent it was given (vertices within the band, interior probes
\* inside) - the finding is about WHICH of several containing polygons becomes the parent (levels, IsHole,
\* innermost container, siblings) - or, when it does not, it touches that parent with two cyclically consecutive
\* vertices (both within the band of the parent's boundary): path1InsidePath2 takes two consecutive vertices that
\* rounding has pushed inside the neighbour as proof of containment.  A polygon attached to something that neither
\* contains it nor touches it in that way is never this finding.
NodeContained(e, k) ==
  LET T == e.tree  polys == [j \in 1..Len(e.tree) |-> e.tree[j].poly] IN
  /\ \A i \in 1..Len(T[k].poly) : InOrNear(T[T[k].parent].poly, T[k].poly[i])
  /\ \A n \in 1..Len(e.probes) :
       (FarClosed(e.probes[n], polys, Band4) /\ WnPath(e.probes[n], T[k].poly) # 0) => WnPath(e.probes[n], T[T[k].parent].poly) # 0
\* (path1InsidePath2 walks the child's vertices, skips those exactly on the parent's boundary and answers "inside" at the
\*  second consecutive vertex that PointInPolygon reports strictly inside)
TwoTouch(e, k) ==
  LET T == e.tree  q == T[k].poly  par == T[T[k].parent].poly  n == Len(q)
      On(i) == \E j \in 1..Len(par) : OnSeg(q[i], par[j], Nxt(par, j))
      StrictIn(i) == ~On(i) /\ WnPath(q[i], par) # 0 /\ ~FarClosedPath(q[i], par, Band4)
      \* the first vertex after i (cyclically) that is not on the parent's boundary; i itself if there is none
      NextOff(i) == LET f[d \in 0..n] == IF d = 0 THEN i
                                         ELSE IF f[d - 1] # i THEN f[d - 1]
                                         ELSE LET j == ((i + d - 1) % n) + 1 IN IF On(j) THEN i ELSE j
                    IN  f[n]
  IN  \E i \in 1..n : StrictIn(i) /\ NextOff(i) # i /\ StrictIn(NextOff(i))
\* ... or shares two or more of its vertices with the parent's boundary (exactly on it): the vertex walk of
\* path1InsidePath2 skips such vertices, and the decision then hangs on the one or two that are left or on the
\* mid-point of the bounds
SharedVertices(e, k) ==
  LET T == e.tree  q == T[k].poly  par == T[T[k].parent].poly IN
  Cardinality({i \in 1..Len(q) : \E j \in 1..Len(par) : OnSeg(q[i], par[j], Nxt(par, j))}) >= 2
ContainedInParents(e) ==
  \A k \in 1..Len(e.tree) : e.tree[k].parent # 0 => (NodeContained(e, k) \/ TwoTouch(e, k) \/ SharedVertices(e, k))

TreeOpOK(e, idx) ==
  /\ Chk("OUT", idx, OutOK(e))
  /\ Has(e, "ARGS") => Chk("ARGS", idx, e.argsSame)
  /\ Has(e, "C04") => ChkF6("C04", idx, C04OK(e), "tree-touching", Len(e.tree) = Len(e.flat) /\ TouchingPolys(e) /\ ContainedInParents(e),
                                        "tree-drops-line-paths", C04SigLinePaths(e), "tree-sliver-orientation", C04SigSliver(e),
                                        "tree-needle-vertex", C04SigNeedle(e),
                                        \* not a touching case (kept as a diagnostic marker; the finding that required it has been repaired)
                                        "tree-apart", ~TouchingPolys(e))

(***************************************************************************)
(* Open subject paths (C09).  All coordinates of the observation are in    *)
(* result units (inputs multiplied by e.k).  Coverage of a point of a      *)
(* subject line is decided two-sidedly: a point that must be covered has   *)
(* to be within 3 of the open solution, a point that must not be covered   *)
(* has to be farther than 0.5 from it: such a point is more than 2 units   *)
(* from every closed input edge, the boundary the lines are cut at may sit *)
(* up to 1.3 units from the exact one (vertices of split edges are rounded *)
(* in cascade) and the cut point itself is rounded (0.71), so the end of a *)
(* legitimate solution piece can come as close as that to the point.       *)
(***************************************************************************)
OpenExpected(ct, fr, subj, clip, p) ==
  CASE ct = 1 -> InSet(fr, clip, p)
    [] ct = 2 -> ~InSet(fr, subj, p) /\ ~InSet(fr, clip, p)
    [] OTHER -> ~InSet(fr, clip, p)

FollowsInOrderR(path, q, r4) ==
  /\ Len(path) >= 2
  /\ LET n == Len(q)  m == Len(path) - 1
         Near(v, s) == NearSeg(v, path[s], path[s + 1], r4)
         Fwd(u, v, s) == LET a == path[s] b == path[s + 1] IN
                         Dot(v[1] - u[1], v[2] - u[2], b[1] - a[1], b[2] - a[2]) >= -(r4 * LenUB(b[1] - a[1], b[2] - a[2]))
         S[i \in 1..n] == IF i = 1 THEN {s \in 1..m : Near(q[1], s)}
                          ELSE {s \in 1..m : Near(q[i], s) /\ \E t \in S[i - 1] : t < s \/ (t = s /\ Fwd(q[i - 1], q[i], s))}
     IN  S[n] # {}

C09OK(e) ==
  LET subj == ScalePaths(e.subj, e.k)  clip == ScalePaths(e.clip, e.k)  open == ScalePaths(e.open, e.k)
      FarIn(p) == FarClosed(p, subj, Band4) /\ FarClosed(p, clip, Band4) IN
  \* open paths never appear in, or alter, the closed solution
  /\ Dt("C09.closed-region", \A n \in 1..Len(e.probes) : RegionOKAt(e.ct, e.fr, subj, clip, e.sol, e.probes[n]))
  \* ... nor appear in it: every vertex of the closed solution is a vertex of a closed input path or an intersection
  \* point of closed input edges, so it lies within the (3-unit) band of a closed input edge; a vertex of an open
  \* line that is far from every closed edge cannot be in the closed solution.  (Zero-area artefacts of the closed
  \* paths themselves do occur, and differ with and without the open paths' extra scan-lines: 1.2 % of calls differ
  \* by such rounding effects, so neither exact equality with the open-free run (e.solClosed) nor absence of
  \* degenerate paths is demanded.)
  /\ Dt("C09.closed-vertices", \A n \in 1..Len(e.sol) : \A i \in 1..Len(e.sol[n]) :
          ~(FarClosed(e.sol[n][i], subj, 12) /\ FarClosed(e.sol[n][i], clip, 12)))
  \* the open solution consists of sub-polylines of the subject lines
  \* (a piece may degenerate to a single point where a line only touches the region)
  /\ \A j \in 1..Len(e.solOpen) : Dt(<<"C09.subpolyline", j>>,
       /\ Len(e.solOpen[j]) >= 1
       /\ \E i \in 1..Len(open) : FollowsInOrderR(open[i], e.solOpen[j], 8) \/ FollowsInOrderR(RevPath(open[i]), e.solOpen[j], 8))
  \* coverage
  /\ \A n \in 1..Len(e.onProbes) :
       LET p == e.onProbes[n] IN
       Dt(<<"C09.coverage", p>>, FarIn(p) => IF OpenExpected(e.ct, e.fr, subj, clip, p) THEN NearOpen(p, e.solOpen, 12) ELSE FarOpen(p, e.solOpen, 2))

OpenOpOK(e, idx) ==
  /\ Chk("OUT", idx, OutOK(e))
  /\ Chk("GENERATOR", idx, \A n \in 1..Len(e.onProbes) : OnOpenPaths(e.onProbes[n], ScalePaths(e.open, e.k)))
  /\ Has(e, "ARGS") => Chk("ARGS", idx, e.argsSame)
  /\ Has(e, "C09") => Chk("C09", idx, C09OK(e))

(***************************************************************************)
(* Offsetting (C05 polygons, C10 open paths).  Radii are integers in       *)
(* quarter units: delta4 = 4 delta, tol4 = 4 (2 + arc tolerance).  The     *)
(* factor k of the property is a rational upper enclosure times 1000.      *)
(* "Sure" predicates guarantee the distance claim (they under-approximate  *)
(* "within r"), Near/Far are the permissive ones of Geometry, so every     *)
(* implication below is weaker than the property, never stronger.          *)
(***************************************************************************)
SrcClosed(e) == e.et = 0 \/ e.et = 1
StripDup(path, closed) ==
  LET n == Len(path)
      f[i \in 0..n] == IF i = 0 THEN <<>> ELSE IF i > 1 /\ path[i] = path[i - 1] THEN f[i - 1] ELSE Append(f[i - 1], path[i])
      r == f[n]
  IN  IF closed /\ Len(r) > 1 /\ r[Len(r)] = r[1] THEN SubSeq(r, 1, Len(r) - 1) ELSE r

Tol4(e) == IF e.arc4 > 0 THEN 8 + e.arc4 ELSE 9
\* the library offsets the paths with consecutive duplicates removed; a path that collapses to one point
\* is offset as a square (a circle for Round ends) of "radius" delta
Src(e) == [k \in 1..Len(e.paths) |-> StripDup(e.paths[k], SrcClosed(e))]
HasPointPath(e) == \E k \in 1..Len(e.paths) : Len(Src(e)[k]) = 1
K1000(e) ==
  LET j == CASE e.jt = 1 -> 1415 [] e.jt = 0 -> Max2(1415, (e.miter4 * 1000 + 3) \div 4) [] OTHER -> 1000
      c == IF e.et = 3 \/ (e.et = 1 /\ e.jt # 3) \/ (e.et # 4 /\ HasPointPath(e)) THEN 1415 ELSE 1000
  IN  Max2(j, c)

SureStrip(p, a, b, r4) ==
  LET dx == b[1] - a[1] dy == b[2] - a[2] t == Dot(p[1] - a[1], p[2] - a[2], dx, dy) IN
  /\ a # b /\ t >= 0 /\ t <= Dot(dx, dy, dx, dy)
  /\ 4 * Abs(Cross(dx, dy, p[1] - a[1], p[2] - a[2])) <= r4 * LenLB(dx, dy)
SureNearPt(p, a, r4) == r4 > 0 /\ 16 * D2(p, a) <= r4 * r4
SureNearSeg(p, a, b, r4) ==
  LET dx == b[1] - a[1] dy == b[2] - a[2] t == Dot(p[1] - a[1], p[2] - a[2], dx, dy) IN
  r4 > 0 /\ (IF t <= 0 THEN SureNearPt(p, a, r4)
             ELSE IF t >= Dot(dx, dy, dx, dy) THEN SureNearPt(p, b, r4)
             ELSE 4 * Abs(Cross(dx, dy, p[1] - a[1], p[2] - a[2])) <= r4 * LenLB(dx, dy))
\* last edge index of a source path (closing edge included for closed sources)
LastEdge(e, path) == IF SrcClosed(e) THEN Len(path) ELSE Len(path) - 1
\* Strip points whose foot is within the tolerance of a segment end (measured along the segment) are not
\* demanded: at a Butt end the stroke stops exactly at the end point, and at a hairpin turn a Bevel join
\* passes through the vertex itself, so such points lie on the boundary of the exact offset region
AwayFromEnd(p, a, b, tol4, atStart, atEnd) ==
  LET dx == b[1] - a[1] dy == b[2] - a[2] t == Dot(p[1] - a[1], p[2] - a[2], dx, dy) l == LenUB(dx, dy) IN
  /\ atStart => 4 * t >= tol4 * l
  /\ atEnd => 4 * (Dot(dx, dy, dx, dy) - t) >= tol4 * l
\* side = 0: either side of the segment (strokes); side = 1 / -1: only points strictly left / right of the
\* directed segment (polygons: the offset construction only builds the strip on the side away from the region)
InStrips(e, p, r4, side) ==
  r4 > 0 /\ \E k \in 1..Len(e.paths) :
     LET q == Src(e)[k] IN
     \E i \in 1..LastEdge(e, q) :
        /\ SureStrip(p, q[i], Nxt(q, i), r4)
        /\ AwayFromEnd(p, q[i], Nxt(q, i), Tol4(e), TRUE, TRUE)
        /\ side # 0 => Sgn(Orient(q[i], Nxt(q, i), p)) = side
SureNearSrc(e, p, r4) ==
  r4 > 0 /\ \E k \in 1..Len(e.paths) :
     LET q == Src(e)[k] IN
     \/ Len(q) = 1 /\ SureNearPt(p, q[1], r4)
     \/ \E i \in 1..LastEdge(e, q) : SureNearSeg(p, q[i], Nxt(q, i), r4)
NearSrc(e, p, r4) == IF SrcClosed(e) THEN ~FarClosed(p, e.paths, r4) ELSE ~FarOpen(p, e.paths, r4)

\* Butt ends: a filled point is next to a segment (not beyond its end by more than the tolerance) or next to an interior vertex
ButtOK(e, p, outer4, tol4) ==
  \E k \in 1..Len(e.paths) :
    LET q == Src(e)[k] IN
    \/ \E i \in 1..(Len(q) - 1) :
         LET a == q[i] b == q[i + 1] dx == b[1] - a[1] dy == b[2] - a[2]
             t == Dot(p[1] - a[1], p[2] - a[2], dx, dy) l == LenUB(dx, dy) IN
         /\ a # b
         /\ 4 * t >= -(tol4 * l) /\ 4 * (t - Dot(dx, dy, dx, dy)) <= tol4 * l
         /\ ~FarLine(p, a, b, outer4)
    \/ \E i \in 2..(Len(q) - 1) : ~FarSeg(p, q[i], q[i], outer4)
    \/ Len(q) = 1 /\ ~FarSeg(p, q[1], q[1], outer4)

\* precondition of C05: a simple polygon set, holes strictly inside, orientations alternating with depth
PathsApart(p, q) == \A i \in 1..Len(p), j \in 1..Len(q) : ~SegsMeet(p[i], Nxt(p, i), q[j], Nxt(q, j))
DepthOf(paths, k) == Cardinality({j \in 1..Len(paths) : j # k /\ WnPath(paths[k][1], paths[j]) # 0})
ValidPolySetG(paths, g) ==
  /\ Len(paths) >= 1
  /\ \A k \in 1..Len(paths) : SimplePath(paths[k])
  /\ \A k, m \in 1..Len(paths) : k < m => PathsApart(paths[k], paths[m])
  /\ \A k \in 1..Len(paths) : Sgn(Area2(paths[k])) = g * (IF DepthOf(paths, k) % 2 = 0 THEN 1 ELSE -1)
ValidPolySet(paths) == \E g \in {1, -1} : ValidPolySetG(paths, g)
\* with two AddPaths groups each group is offset on its own (orientation is decided per group), so each
\* must be a valid polygon set of the same global orientation
\* (judged on the paths with repeated points removed: a ring may be written with any vertex repeated and with its
\*  first vertex repeated once or more at the end)
ValidGroups(e) ==
  LET P == Src(e) IN
  \E g \in {1, -1} :
     /\ ValidPolySetG(P, g)
     /\ (e.split > 0 /\ e.split < Len(P)) =>
           (ValidPolySetG(SubSeq(P, 1, e.split), g) /\ ValidPolySetG(SubSeq(P, e.split + 1, Len(P)), g))

\* x4: extra tolerance in quarter units (0 for the property; 4 in the signature of the listed finding "offset-rounding-3")
InflateRegionOK(e, x4) ==
  LET ad == Abs(e.delta4) tol4 == Tol4(e) + x4
      outer4 == (K1000(e) * ad + 999) \div 1000 + tol4
      polygon == e.et = 0
      InSrc(p) == polygon /\ WnPaths(p, e.paths) # 0
      grow == e.delta4 > 0 \/ ~polygon
      \* polygons given with negative outer boundaries come back negatively oriented as a whole
      rev == polygon /\ \E k \in 1..Len(e.paths) : DepthOf(e.paths, k) = 0 /\ Area2(e.paths[k]) < 0
  IN
  \A n \in 1..Len(e.probes) :
    LET p == e.probes[n] IN
    /\ Dt(<<"inflate.canonical", p>>, CanonicalAt(e.sol, rev, p))
    /\ IF grow
       THEN /\ Dt(<<"inflate.source-kept", p>>, (InSrc(p) /\ FarClosed(p, e.paths, Band4)) => In(e.sol, p))
            \* (a valid polygon set of orientation g has its region on the left (g = 1) / right (g = -1) of every edge)
            /\ Dt(<<"inflate.strip", p>>, InStrips(e, p, ad - tol4, IF polygon THEN (IF rev THEN 1 ELSE -1) ELSE 0) => In(e.sol, p))
            /\ Dt(<<"inflate.round-near", p>>, (e.jt = 3 /\ polygon) => (SureNearSrc(e, p, ad - tol4) => In(e.sol, p)))
            /\ Dt(<<"inflate.outer-bound", p>>, (In(e.sol, p) /\ ~InSrc(p)) => NearSrc(e, p, outer4))
       ELSE /\ Dt(<<"shrink.outside-stays-out", p>>, (~InSrc(p) /\ FarClosed(p, e.paths, Band4)) => ~In(e.sol, p))
            /\ Dt(<<"shrink.strip", p>>, InStrips(e, p, ad - tol4, IF rev THEN -1 ELSE 1) => ~In(e.sol, p))
            /\ Dt(<<"shrink.round-near", p>>, e.jt = 3 => (SureNearSrc(e, p, ad - tol4) => ~In(e.sol, p)))
            /\ Dt(<<"shrink.inner-bound", p>>, (~In(e.sol, p) /\ InSrc(p)) => NearSrc(e, p, outer4))
    \* open-path specifics (C10)
    /\ Dt(<<"inflate.butt", p>>, (e.et = 2 /\ In(e.sol, p)) => ButtOK(e, p, outer4, tol4))
    \* Square and Round ends extend delta BEYOND the end points: the half-disc of radius delta - tol on the far side
    \* of an end point (in the direction of the last / against the direction of the first segment) is covered.  The
    \* near side is the business of the strip clause: when the end segment is shorter than delta, a Bevel / Miter /
    \* Square join at its other end legitimately cuts into the disc behind the end point
    /\ Dt(<<"inflate.end-cap", p>>, (e.et \in {3, 4}) =>
          \A k \in 1..Len(e.paths) :
             LET q == Src(e)[k]  m == Len(q) IN
             m >= 2 =>
               /\ (SureNearPt(p, q[m], ad - tol4) /\ Dot(p[1] - q[m][1], p[2] - q[m][2], q[m][1] - q[m - 1][1], q[m][2] - q[m - 1][2]) >= 0) => In(e.sol, p)
               /\ (SureNearPt(p, q[1], ad - tol4) /\ Dot(p[1] - q[1][1], p[2] - q[1][2], q[1][1] - q[2][1], q[1][2] - q[2][2]) >= 0) => In(e.sol, p))
    \* a single point becomes a square / circle of radius delta
    /\ (~polygon /\ \E k \in 1..Len(e.paths) : Len(Src(e)[k]) = 1 /\ SureNearPt(p, Src(e)[k][1], ad - tol4)) => In(e.sol, p)

\* a magnitude variant v = [k, t, sol (big), q (base units), qok]: q is sol mapped back, q = round((sol - t) / k)
MapBackOK(v) ==
  /\ v.qok /\ Len(v.sol) = Len(v.q)
  /\ \A k \in 1..Len(v.sol) : Len(v.sol[k]) = Len(v.q[k]) /\
       \A i \in 1..Len(v.sol[k]) : \A c \in 1..2 :
          GB!Cmp(GB!Mul(GB!AbsB(GB!Sub(GB!Sub(v.sol[k][i][c], v.t[c]), GB!Mul(v.k, GB!FromInt(v.q[k][i][c])))), GB!FromInt(2)),
                 GB!AbsB(v.k)) <= 0

\* the same call with paths, delta and arc tolerance multiplied by e.kv.k (2^20 .. 2^34): mapped back to base units it
\* describes the same region (3-unit band: 2 + the rounding of the mapping); "any delta", "any open polyline"
\* (kind "skip": the harness did not record a variant of more than 4 000 vertices - Ellipse64 picks its step count
\*  from the radius when fewer than three steps would do)
InflateScaledOK(e) ==
  e.kv.kind = "skip" \/
  /\ Dt("inflate.scaled-outcome", e.kv.out = "ok" /\ MapBackOK(e.kv))
  /\ AbsMaxPaths(e.kv.q) <= TameBound(e)
  /\ \A n \in 1..Len(e.probes) :
       LET p == e.probes[n] IN
       Dt(<<"inflate.scaled-region", p>>, (FarClosed(p, e.sol, 12) /\ FarClosed(p, e.kv.q, 12)) => (In(e.sol, p) = In(e.kv.q, p)))

InflateOK5(e) ==
  /\ \A k \in 1..Len(e.sol) : Dt(<<"inflate.path-canonical", k>>, PathCanonical(e.sol[k]) \/ Abs(e.delta4) < 2)
  /\ IF Abs(e.delta4) < 2
     THEN e.sol = [k \in 1..Len(e.paths) |-> StripDup(e.paths[k], SrcClosed(e))]
     ELSE InflateRegionOK(e, 0) /\ InflateScaledOK(e)

\* signature of the listed finding "offset-rounding-3": every clause holds once the tolerance is 3 units (+ arc
\* tolerance) instead of 2: the end points of the offset edges are rounded to integers before the edges are
\* intersected, so at a sharp corner between two short edges the corner of the result can sit up to about 2.5
\* units from its exact place
InflateSig3(e) ==
  /\ \A k \in 1..Len(e.sol) : PathCanonical(e.sol[k])
  /\ Abs(e.delta4) >= 2 /\ InflateRegionOK(e, 4) /\ InflateScaledOK(e)

InflateOK(e, idx) ==
  /\ Chk("OUT", idx, OutOK(e))
  /\ Has(e, "ARGS") => Chk("ARGS", idx, e.argsSame)
  /\ Has(e, "DET") => Chk("DET", idx, e.sol2same)
  /\ Has(e, "C05") => (Chk("GENERATOR", idx, e.et = 0 /\ ValidGroups(e)) /\ ChkF("C05", idx, InflateOK5(e), "offset-rounding-3", InflateSig3(e)))
  /\ Has(e, "C10") => (Chk("GENERATOR", idx, e.et \in 1..4 /\ e.delta4 >= 2) /\ ChkF("C10", idx, InflateOK5(e), "offset-rounding-3", InflateSig3(e)))

(***************************************************************************)
(* Minkowski sum / difference (C08).  The result is the region swept by    *)
(* the pattern's BOUNDARY moved along the path: p is in Sum(pattern, path) *)
(* iff the pattern boundary reflected through the origin and translated to *)
(* p meets the path (Diff: unreflected).  The answer can change only       *)
(* across an edge of a parallelogram (path edge (+) +-pattern edge), so    *)
(* the claim is made at probes farther than 2 from all those edges.        *)
(***************************************************************************)
MinkLast(e) == IF Len(e.path) = 1 THEN 1 ELSE IF e.closed THEN Len(e.path) ELSE Len(e.path) - 1
MinkSg(e) == IF e.sum THEN 1 ELSE -1
Shift(c, a, sg) == <<c[1] + sg * a[1], c[2] + sg * a[2]>>

MinkFar(e, p) ==
  \A i \in 1..MinkLast(e) : \A j \in 1..Len(e.pattern) :
     LET c == e.path[i] d == Nxt(e.path, i) a == e.pattern[j] b == Nxt(e.pattern, j) sg == MinkSg(e) IN
     FarClosedPath(p, <<Shift(c, a, sg), Shift(d, a, sg), Shift(d, b, sg), Shift(c, b, sg)>>, Band4)

MinkTruth(e, p) ==
  Len(e.pattern) > 0 /\ Len(e.path) > 0 /\
  \E j \in 1..Len(e.pattern) :
     LET ta == Shift(p, e.pattern[j], -MinkSg(e)) tb == Shift(p, Nxt(e.pattern, j), -MinkSg(e)) IN
     IF Len(e.path) = 1 THEN OnSeg(e.path[1], ta, tb)
     ELSE \E i \in 1..MinkLast(e) : SegsMeet(ta, tb, e.path[i], Nxt(e.path, i))

C08OK(e) ==
  /\ \A k \in 1..Len(e.sol) : PathCanonical(e.sol[k])
  /\ \A n \in 1..Len(e.probes) :
       LET p == e.probes[n] IN
       /\ CanonicalAt(e.sol, FALSE, p)
       /\ MinkFar(e, p) => (In(e.sol, p) = MinkTruth(e, p))
       /\ (e.hasSwap /\ MinkFar(e, p)) => SameRegionAt(e.sol, e.solSwap, p)
       \* the same call with pattern and path multiplied by e.kv.k ("any path whose coordinate sums stay in range"):
       \* mapped back to base units it describes the same region (3-unit band: 2 + the rounding of the mapping)
       /\ (FarClosed(p, e.sol, 12) /\ FarClosed(p, e.kv.q, 12)) => (In(e.sol, p) = In(e.kv.q, p))
  /\ e.kv.out = "ok" /\ MapBackOK(e.kv)

MinkOK(e, idx) ==
  /\ Chk("OUT", idx, OutOK(e))
  /\ Has(e, "ARGS") => Chk("ARGS", idx, e.argsSame)
  /\ Has(e, "DET") => Chk("DET", idx, e.sol2same)
  /\ Has(e, "C08") => Chk("C08", idx, C08OK(e))

(***************************************************************************)
(* Floating-point API against the integer API on quantised input (C07).    *)
(* Input coordinates are float64 values logged exactly as m * 2^e;         *)
(* quantising at precision p is rounding x * 10^p to the nearest integer   *)
(* (either neighbour at a tie).  All arithmetic here is BigInt.  e.rd9 holds the D result's *)
(* coordinates times 10^(p+9); they must equal the 64-bit result's         *)
(* coordinates (times 10^9) up to 10^-6 plus float64 rounding of the       *)
(* division (relative 10^-15).                                             *)
(***************************************************************************)
Pow10B(k) == LET f[i \in 0..k] == IF i = 0 THEN GB!FromInt(1) ELSE GB!Mul(f[i - 1], GB!FromInt(10)) IN f[k]

Pow2B(k) == LET f[i \in 0..k] == IF i = 0 THEN GB!FromInt(1) ELSE GB!Mul(f[i - 1], GB!FromInt(2)) IN f[k]

\* x = c.m * 2^(c.e) is the float64 coordinate exactly; q must be the nearest integer to x * 10^p.
\* The implementation forms x * 10^p in float64 (one rounding, relative 2^-53) before rounding to an
\* integer, so either neighbour is accepted when x * 10^p is within that error of a tie.
QuantOK(c, q, p) ==
  LET num == GB!Mul(GB!Mul(c.m, Pow2B(IF c.e > 0 THEN c.e ELSE 0)), Pow10B(IF p > 0 THEN p ELSE 0))
      den == GB!Mul(Pow2B(IF c.e < 0 THEN -c.e ELSE 0), Pow10B(IF p < 0 THEN -p ELSE 0))
      d2  == GB!Mul(GB!AbsB(GB!Sub(num, GB!Mul(q, den))), GB!FromInt(2))
  IN  GB!Cmp(GB!Mul(d2, Pow2B(50)),
             GB!Mul(den, GB!Add(Pow2B(50), GB!Add(GB!Mul(GB!AbsB(q), GB!FromInt(2)), GB!FromInt(2))))) <= 0

QuantPathsOK(X, Q, p) ==
  /\ Len(X) = Len(Q)
  /\ \A k \in 1..Len(X) : Len(X[k]) = Len(Q[k]) /\
        \A i \in 1..Len(X[k]) : QuantOK(X[k][i][1], Q[k][i][1], p) /\ QuantOK(X[k][i][2], Q[k][i][2], p)

CoordMatches(rd9, r64) ==
  GB!Cmp(GB!Mul(GB!AbsB(GB!Sub(rd9, GB!Mul(r64, Pow10B(9)))), Pow10B(6)), GB!Add(Pow10B(9), GB!AbsB(r64))) <= 0

ResultMatches(RD9, R64) ==
  /\ Len(RD9) = Len(R64)
  /\ \A k \in 1..Len(R64) : Len(RD9[k]) = Len(R64[k]) /\
        \A i \in 1..Len(R64[k]) : CoordMatches(RD9[k][i][1], R64[k][i][1]) /\ CoordMatches(RD9[k][i][2], R64[k][i][2])

C07OK(e) ==
  IF e.p < -8 \/ e.p > 8 THEN e.out = "panic:precision is out of range"
  ELSE /\ e.out = "ok" /\ e.ok
       /\ QuantPathsOK(e.xa, e.qa, e.p) /\ QuantPathsOK(e.xb, e.qb, e.p)
       /\ ResultMatches(e.rd9, e.r64)
       /\ e.td = e.t64

DvsIOK(e, idx) ==
  /\ Has(e, "ARGS") => Chk("ARGS", idx, e.argsSame)
  /\ Has(e, "C07") => Chk("C07", idx, C07OK(e))

(***************************************************************************)
(* Independence of coordinate magnitude (C13).  An operation is run on a   *)
(* small base input and on copies translated by t (|coordinates| up to     *)
(* 2^52) or scaled by k (up to MaxCoord = 2^61).  The harness maps every   *)
(* big result back to base units, q = round((v - t) / k); the mapping is   *)
(* verified here in BigInt, and q must describe the same region as the     *)
(* identity variant's result (variant 1) outside the band: 2 units for a   *)
(* translation, 3 for a scaling (the property's 2 units + 2^-40 of the     *)
(* extent in scaled units is far below one base unit; 1 unit pays for the  *)
(* rounding of the mapping).                                               *)
(***************************************************************************)
MagBand(v) == IF v.kind = "t" THEN 8 ELSE 12

BigPt(v, p) == <<GB!Add(GB!Mul(v.k, GB!FromInt(p[1])), v.t[1]), GB!Add(GB!Mul(v.k, GB!FromInt(p[2])), v.t[2])>>
BigPath(v, path) == [i \in 1..Len(path) |-> BigPt(v, path[i])]

PipExpectedB(bp, bpath) ==
  IF Len(bpath) < 3 THEN 2
  ELSE IF GB!OnClosedPathB(bp, bpath) THEN 0
  ELSE IF (GB!WnPathB(bp, bpath) % 2) # 0 THEN 1 ELSE 2

Pow2_50 == GB!Mul(GB!FromInt(33554432), GB!FromInt(33554432))

C13OK(e) ==
  LET base == e.vars[1] IN
  /\ \A n \in 1..Len(e.vars) : e.vars[n].out = "ok"
  /\ CASE e.op \in {"bool", "rect", "inflate"} ->
            \A n \in 1..Len(e.vars) :
               LET v == e.vars[n] r4 == MagBand(v) IN
               /\ MapBackOK(v)
               /\ \A j \in 1..Len(e.probes) :
                    LET p == e.probes[j] IN
                    (FarClosed(p, base.q, r4) /\ FarClosed(p, v.q, r4) /\ FarClosed(p, e.subj, r4) /\ FarClosed(p, e.clip, r4))
                       => (WnPaths(p, v.q) = WnPaths(p, base.q))
       [] e.op = "pip" ->
            \A n \in 1..Len(e.vars) :
               LET v == e.vars[n] IN
               \* exact in BigInt up to 2^52 (products of differences stay exact in float64 for small shapes);
               \* beyond, the answer must still be right for points off the polygon's 2-unit band
               \* (polygons contained in one horizontal line are outside the property, as in C14)
               OneHorizontal(e.subj[1]) \/
               IF v.kind = "t" THEN v.n = PipExpectedB(BigPt(v, e.pt), BigPath(v, e.subj[1]))
               ELSE FarClosedPath(e.pt, e.subj[1], Band4) => v.n = PipExpectedB(BigPt(v, e.pt), BigPath(v, e.subj[1]))
       [] e.op = "area" ->
            \A n \in 1..Len(e.vars) :
               LET v == e.vars[n]  A2 == GB!Area2B(BigPath(v, e.subj[1])) IN
               /\ v.b
               /\ GB!Cmp(GB!Mul(GB!AbsB(GB!Sub(v.a2, A2)), Pow2_50), GB!AbsB(A2)) <= 0
               /\ (v.n = 1) = (GB!Sign(A2) >= 0)
       [] OTHER -> FALSE

MagGroupOK(e, idx) == Has(e, "C13") => Chk("C13", idx, C13OK(e))

(***************************************************************************)
(* A recorded concurrent run (C18): the observed order in which the        *)
(* segments started must be the schedule the model prescribed (so the      *)
(* interleaving that was explored is the one TLC chose), it must be a      *)
(* complete behaviour of Sched.tla (every process ran its S segments), and *)
(* every call returned exactly what it returns when run alone.             *)
(***************************************************************************)
CountIn(seq, x) == Cardinality({i \in 1..Len(seq) : seq[i] = x})
SchedRunOK(e, idx) ==
  /\ Chk("GENERATOR", idx, e.forced => (e.observed = e.sched /\ \A p \in 1..e.n : CountIn(e.sched, p) = e.s))
  /\ Has(e, "C18") => Chk("C18", idx, /\ \A k \in 1..Len(e.calls) : e.calls[k].out = "ok" /\ e.calls[k].same
                                     /\ e.inputsSame /\ ~e.race)

(***************************************************************************)
(* Component machine: the implementation's active edge list at every       *)
(* scan-line against the specification's sweep (Sweep.tla, S1..S5).        *)
(***************************************************************************)
SweepEvOK(e, idx) ==
  /\ Chk("OUT", idx, OutOK(e))
  /\ Has(e, "SWEEP") =>
       LET inputs == InputEdges(e.subj, e.clip)  openIn == OpenEdgesOf(e.open) IN
       /\ Chk("S5", idx, S5Scanlines(e.subj \o e.open, e.clip, e.beams))
       /\ Chk("S1", idx, \A k \in 1..Len(e.beams) : S1Membership(inputs, openIn, e.beams[k]))
       /\ Chk("S2", idx, \A k \in 1..Len(e.beams) : S2Order(e.beams[k]))
       /\ Chk("S3", idx, \A k \in 1..Len(e.beams) : S3Winding(e.fr, e.beams[k]))
       /\ Chk("S4", idx, \A k \in 1..Len(e.beams) : S4Contribution(e.ct, e.fr, e.beams[k]))
       /\ Chk("S6", idx, S6All(e.beams, 8))
       /\ Chk("R1", idx, R1Rings(e.rings))
       /\ Chk("R2", idx, R2Owners(e.rings, e.tree))
       /\ Chk("R3", idx, \A k \in 1..Len(e.probes) : RegionOKAt(e.ct, e.fr, e.subj, e.clip, RawRings(e.rings), e.probes[k]))
       /\ Chk("R4", idx, \A k \in 1..Len(e.probes) :
                           (FarClosed(e.probes[k], e.subj, Band4) /\ FarClosed(e.probes[k], e.clip, Band4)) =>
                              ((WnPaths(e.probes[k], RawRings(e.rings)) # 0) <=> (WnPaths(e.probes[k], e.sol) # 0)))

(***************************************************************************)
(* The small deterministic helpers of the API (not among the listed        *)
(* properties; validated as an advisory component of C03).                 *)
(***************************************************************************)
TruncDiv(a, b) == IF a >= 0 THEN a \div b ELSE -((-a) \div b)          \* b > 0, towards zero

UtilOK1(e) ==
  LET P == e.path IN
  CASE e.fn = "StripDuplicates" -> e.res = StripDup(P, e.flag)
    [] e.fn = "ReversePath"     -> e.res = RevPath(P)
    [] e.fn \in {"TranslatePath64", "OffsetPath"} ->
          e.res = [i \in 1..Len(P) |-> <<P[i][1] + e.n1, P[i][2] + e.n2>>]
    [] e.fn = "TranslatePaths64" ->
          e.resSet = [k \in 1..Len(e.set) |-> [i \in 1..Len(e.set[k]) |-> <<e.set[k][i][1] + e.n1, e.set[k][i][2] + e.n2>>]]
    [] e.fn = "MakePath64" ->
          e.res = [i \in 1..(Len(e.vals) \div 2) |-> <<e.vals[2 * i - 1], e.vals[2 * i]>>]
    \* scale = n1 / 4, products truncated towards zero (scale 1 returns the path itself)
    [] e.fn = "ScalePath64" ->
          e.res = [i \in 1..Len(P) |-> <<TruncDiv(P[i][1] * e.n1, 4), TruncDiv(P[i][2] * e.n1, 4)>>]
    \* an ellipse: empty for a non-positive x radius; y radius defaults to the x radius; `steps` vertices (when
    \* steps > 2), each within 1.5 units of the ellipse: | |((x-cx) ry, (y-cy) rx)| - rx ry | <= 1.5 max(rx, ry)
    [] e.fn = "Ellipse64" ->
          LET c == P[1] rx == e.n1 ry == IF e.n2 <= 0 THEN e.n1 ELSE e.n2 IN
          IF rx <= 0 THEN e.res = <<>>
          ELSE /\ (e.n3 > 2 => Len(e.res) = e.n3)
               /\ Len(e.res) >= 1
               /\ \A i \in 1..Len(e.res) :
                    LET u == (e.res[i][1] - c[1]) * ry  v == (e.res[i][2] - c[2]) * rx
                        t == (3 * Max2(rx, ry) + 1) \div 2  m == rx * ry IN
                    /\ u * u + v * v <= (m + t) * (m + t)
                    /\ (m > t => u * u + v * v >= (m - t) * (m - t))
    [] e.fn = "RectContains"   -> e.b = (P[3][1] >= P[1][1] /\ P[4][1] <= P[2][1] /\ P[3][2] >= P[1][2] /\ P[4][2] <= P[2][2])
    [] e.fn = "RectIntersects" -> e.b = (Max2(P[1][1], P[3][1]) <= Min2(P[2][1], P[4][1]) /\ Max2(P[1][2], P[3][2]) <= Min2(P[2][2], P[4][2]))
    [] e.fn = "RectIsEmpty"    -> e.b = (P[2][2] <= P[1][2] \/ P[2][1] <= P[1][1])
    [] e.fn = "RectMid"        -> e.res = << <<TruncDiv(P[1][1] + P[2][1], 2), TruncDiv(P[1][2] + P[2][2], 2)>> >>
    [] e.fn = "Path64ToPathD"  -> e.res = P
    \* a delta callback that always returns delta is the constant-delta offset (Polygon end type, Miter / Square /
    \* Bevel joins: identical vertex lists); the callback is asked once per vertex of every path that is offset, with
    \* the vertex index and the index of its cyclic predecessor (both as uint8: paths of up to 255 vertices)
    [] e.fn = "OffsetCallbackConst" ->
          /\ e.resSet = e.resSet2
          /\ \A i \in 1..Len(e.idx) : e.idx[i][1] >= 0 /\ e.idx[i][2] >= 0 /\ e.idx[i][1] # e.idx[i][2]
          /\ \A i \in 2..Len(e.idx) : e.idx[i][1] # 0 => e.idx[i][2] = e.idx[i - 1][1]
    \* AddPathsWithScaleFunc / ExecuteWithScaleFunc with the library's own scaling functions are AddPaths / ExecuteOC
    [] e.fn = "EngineDScaleFunc" -> e.resSet = e.resSet2
    \* the orientation reference of polygon offsetting: the first path of non-zero area that owns the lowest vertex
    \* (greatest y, then smallest x) among the paths of non-zero area; n3 its 0-based index (-1: none), b = its area
    \* is negative, flag = ClipperOffset.CheckPathsReversed() = (n3 >= 0 /\ b)
    [] e.fn = "LowestPathInfo" ->
          LET S == e.set
              NZ == {k \in 1..Len(S) : Area2(S[k]) # 0}
              Lower(p, q) == p[2] > q[2] \/ (p[2] = q[2] /\ p[1] < q[1])
              Owns(k) == \E i \in 1..Len(S[k]) : \A m \in NZ : \A j \in 1..Len(S[m]) : ~Lower(S[m][j], S[k][i])
              Own == {k \in NZ : Owns(k)} IN
          IF Own = {} THEN e.n3 = -1 /\ ~e.flag
          ELSE LET k == CHOOSE x \in Own : \A y \in Own : x <= y IN
               /\ e.n3 = k - 1
               /\ e.b = (Area2(S[k]) < 0)
               /\ e.flag = e.b
    \* Point64 -> PointD by 2^-n1 and back by 2^n1 is the identity; PointD n/4 -> Point64 rounds to the nearest integer,
    \* halves away from zero
    [] e.fn = "PointScale" ->
          LET RoundQ(n) == IF n >= 0 THEN (n + 2) \div 4 ELSE -((-n + 2) \div 4) IN
          /\ Len(e.res) = 2 * Len(P)
          /\ \A i \in 1..Len(P) : /\ e.res[2 * i - 1] = P[i]
                                   /\ e.res[2 * i] = <<RoundQ(P[i][1]), RoundQ(P[i][2])>>
    \* PolyTree accessors: Count() is the number of children of a node, Clear() empties the tree
    [] e.fn = "PolyTreeAccessors" ->
          /\ Len(e.counts) = Len(e.tree) + 1
          /\ e.counts[1] = Cardinality({k \in 1..Len(e.tree) : e.tree[k].parent = 0})
          /\ \A k \in 1..Len(e.tree) : e.counts[k + 1] = Cardinality({m \in 1..Len(e.tree) : e.tree[m].parent = k})
          /\ e.b
    [] OTHER -> FALSE

UtilOK(e, idx) ==
  /\ Chk("OUT", idx, OutOK(e))
  /\ Has(e, "ARGS") => Chk("ARGS", idx, e.argsSame)
  /\ Has(e, "UTIL") => Chk("UTIL", idx, UtilOK1(e))
=============================================================================
