------------------------------ MODULE Clipper2 ------------------------------
(***************************************************************************)
(* The go-clipper2 library as a state machine.                             *)
(*                                                                         *)
(* State: the engine, offset and rectangle-clip objects a client has       *)
(* created, each reduced to what may influence a later answer, and `pkg`,  *)
(* the package-level mutable state (which the library must not have).      *)
(* Actions: the exported operations.  The value an operation returns is    *)
(* not determined by the specification (any vertex list describing the     *)
(* right region is acceptable); an action therefore takes the *observed*   *)
(* result as a parameter and is enabled exactly when that result stands in *)
(* the required relation to the arguments and to the object's state.  The  *)
(* relation is evaluated at a finite set of probe points supplied with the *)
(* observation: the specification decides which probes are outside the     *)
(* rounding band and what the answer there has to be.                      *)
(*                                                                         *)
(* An observation `e` is a record (one trace event).  Check clauses are    *)
(* selected by e.chk so that one recorded call can be validated against    *)
(* one property at a time; Chk prints the failing clause.                  *)
(***************************************************************************)
EXTENDS Region, TLC

VARIABLES engines,   \* id -> [kind, prec, subj, clip, open, pc, rev, usedTree, nexec]
          offsets,   \* id -> [groups, miter, arc, pc, rev]
          pkg        \* package-level mutable state: must stay the empty record (C18)

sysvars == <<engines, offsets, pkg>>

SysInit == engines = <<>> /\ offsets = <<>> /\ pkg = [x \in {} |-> 0]

Has(e, c) == \E i \in 1..Len(e.chk) : e.chk[i] = c

\* evaluates to cond; prints the clause name and event index when it is false
Chk(name, idx, cond) == cond \/ (PrintT(<<"FAIL", name, idx>>) /\ FALSE)

(***************************************************************************)
(* Clause groups                                                           *)
(***************************************************************************)
\* C03: the call returned normally and reported success
OutOK(e) == e.out = "ok" /\ e.ok

\* C01 over the probes of the observation
C01OK(e, subj, clip, sol) ==
  \A k \in 1..Len(e.probes) : RegionOKAt(e.ct, e.fr, subj, clip, sol, e.probes[k])

\* drift between the harness's transliteration (used for hints only) and this spec
NoDrift(e, subj, clip) ==
  \A k \in 1..Len(e.gexp) :
     LET p == e.probes[k]
         far == FarClosed(p, subj, Band4) /\ FarClosed(p, clip, Band4)
     IN  IF ~far THEN e.gexp[k] = 2
         ELSE e.gexp[k] = (IF Expected(e.ct, e.fr, subj, clip, p) THEN 1 ELSE 0)

\* C02 over the probes
C02OK(e, sol) ==
  /\ \A k \in 1..Len(sol) : PathCanonical(sol[k])
  /\ \A k \in 1..Len(e.probes) : CanonicalAt(sol, e.rev, e.probes[k])
  \* consequences: the three positive readings agree off the band ...
  /\ \A k \in 1..Len(e.probes) :
        LET p == e.probes[k] w == WnPaths(p, sol) ws == IF e.rev THEN -w ELSE w IN
        FarClosed(p, sol, Band4) => (Fill(0, ws) = Fill(1, ws) /\ Fill(1, ws) = Fill(2, ws))
  \* ... and re-uniting the solution changes nothing outside the band
  /\ Has(e, "UNI") => \A k \in 1..Len(e.probes) : SameRegionAt(sol, e.uni, e.probes[k])

(***************************************************************************)
(* Package-level boolean operation: behaves like a fresh engine that gets  *)
(* the subject and clip sets and executes once; no state is touched.       *)
(***************************************************************************)
BooleanOpOK(e, idx) ==
  /\ Chk("OUT", idx, OutOK(e))
  /\ Chk("ARGS", idx, e.argsSame)
  /\ Chk("DET", idx, e.sol2same)
  /\ Has(e, "C01") => Chk("C01", idx, C01OK(e, e.subj, e.clip, e.sol))
  /\ Has(e, "C02") => Chk("C02", idx, C02OK(e, e.sol))
  /\ Chk("DRIFT", idx, NoDrift(e, e.subj, e.clip))

BooleanOp(e, idx) == BooleanOpOK(e, idx) /\ UNCHANGED sysvars
=============================================================================
