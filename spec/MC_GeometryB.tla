---------------------------- MODULE MC_GeometryB ----------------------------
(* GeometryB (BigInt) agrees with Geometry (native) on every point triple of a 4x4 lattice,
   and on winding numbers / areas of all lattice triangles against all lattice probes. *)
EXTENDS Geometry, TLC
GB == INSTANCE GeometryB
L == 0..3
Pts == {<<x, y>> : x \in L, y \in L}
VARIABLE a, b, c
Init == a \in Pts /\ b \in Pts /\ c \in Pts
Next == UNCHANGED <<a, b, c>>
Scale(p, k, o) == <<p[1] * k + o, p[2] * k - o>>
Inv ==
  /\ Sgn(Orient(a, b, c)) = GB!OrientSgnB(GB!BPt(a), GB!BPt(b), GB!BPt(c))
  /\ OnSeg(c, a, b) = GB!OnSegB(GB!BPt(c), GB!BPt(a), GB!BPt(b))
  /\ GB!ToInt(GB!Area2B(GB!BPath(<<a, b, c>>))) = Area2(<<a, b, c>>)
  /\ \A p \in Pts : WnPath(p, <<a, b, c>>) = GB!WnPathB(GB!BPt(p), GB!BPath(<<a, b, c>>))
  \* the same triple scaled far outside the native product range keeps its orientation
  /\ LET k == 30000 o == 1000000000 IN
     Sgn(Orient(a, b, c)) = GB!OrientSgnB(GB!BPt(Scale(a, k, o)), GB!BPt(Scale(b, k, o)), GB!BPt(Scale(c, k, o)))
=============================================================================
