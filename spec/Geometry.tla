------------------------------ MODULE Geometry ------------------------------
(***************************************************************************)
(* Exact integer plane geometry on TLC's native integers.                  *)
(*                                                                         *)
(* Points are pairs <<x, y>>, paths are sequences of points, path sets are *)
(* sequences of paths.  Every operator here is exact as long as no         *)
(* intermediate value leaves the 32-bit range; TLC raises an error (never  *)
(* wraps) when one does, and the orchestrator treats that as a tool error. *)
(* With |coordinate| <= 2^13 all degree-2 expressions below fit.           *)
(*                                                                         *)
(* Distances are never computed.  "p is farther than r from segment ab"    *)
(* is decided through a rational upper bound of the segment length, so the *)
(* answer TRUE is always right and the answer FALSE may be wrong only for  *)
(* points within 12% of the radius: FarSeg under-approximates "far" and    *)
(* NearSeg == ~FarSeg over-approximates "near".  Properties are demanded   *)
(* only at Far probes and "lies within r" claims are accepted at Near      *)
(* points, so both errors weaken a check, never strengthen it.             *)
(* Radii are given in quarter units (r4 = 4 r).                            *)
(***************************************************************************)
EXTENDS Integers, Sequences

Abs(x)     == IF x < 0 THEN -x ELSE x
Max2(a, b) == IF a >= b THEN a ELSE b
Min2(a, b) == IF a <= b THEN a ELSE b
Sgn(x)     == IF x > 0 THEN 1 ELSE IF x < 0 THEN -1 ELSE 0

Cross(ax, ay, bx, by) == ax * by - ay * bx
Dot(ax, ay, bx, by)   == ax * bx + ay * by

\* > 0 iff c lies to the left of the directed line a -> b (y axis up)
Orient(a, b, c) == Cross(b[1] - a[1], b[2] - a[2], c[1] - a[1], c[2] - a[2])

Collinear(a, b, c) == Orient(a, b, c) = 0

Nxt(path, i) == path[(i % Len(path)) + 1]
Prv(path, i) == path[((i + Len(path) - 2) % Len(path)) + 1]

(***************************************************************************)
(* Winding number of p with respect to a closed path (half-open crossing   *)
(* rule: an edge counts when it crosses the horizontal ray from p to +x,   *)
(* bottom end point included, top end point excluded).  Exact for every p  *)
(* not on the path.                                                        *)
(***************************************************************************)
EdgeW(p, a, b) ==
  IF a[2] <= p[2]
  THEN IF b[2] >  p[2] /\ Cross(b[1] - a[1], b[2] - a[2], p[1] - a[1], p[2] - a[2]) > 0 THEN  1 ELSE 0
  ELSE IF b[2] <= p[2] /\ Cross(b[1] - a[1], b[2] - a[2], p[1] - a[1], p[2] - a[2]) < 0 THEN -1 ELSE 0

WnPath(p, path) ==
  LET n == Len(path)
      f[i \in 0..n] == IF i = 0 THEN 0 ELSE f[i - 1] + EdgeW(p, path[i], Nxt(path, i))
  IN  IF n < 2 THEN 0 ELSE f[n]

WnPaths(p, paths) ==
  LET n == Len(paths)
      f[k \in 0..n] == IF k = 0 THEN 0 ELSE f[k - 1] + WnPath(p, paths[k])
  IN  f[n]

(***************************************************************************)
(* Length bounds:  LenUB >= sqrt(dx^2+dy^2) >= LenLB  (a + b/2 >= hypot    *)
(* for a >= b >= 0 because (a + b/2)^2 - a^2 - b^2 = b(a - 3b/4) >= 0).    *)
(***************************************************************************)
LenUB(dx, dy) == LET a == Max2(Abs(dx), Abs(dy)) b == Min2(Abs(dx), Abs(dy)) IN a + (b + 1) \div 2
LenLB(dx, dy) == LET a == Max2(Abs(dx), Abs(dy)) b == Min2(Abs(dx), Abs(dy)) IN Max2(a, (7 * (a + b)) \div 10)

\* squared distance of two points
D2(p, q) == (p[1] - q[1]) * (p[1] - q[1]) + (p[2] - q[2]) * (p[2] - q[2])

\* TRUE  =>  dist(p, segment ab) > r4/4        (integer n > x  <=>  n > floor(x))
FarSeg(p, a, b, r4) ==
  LET dx == b[1] - a[1]  dy == b[2] - a[2]
      wx == p[1] - a[1]  wy == p[2] - a[2]
      t  == Dot(wx, wy, dx, dy)
  IN  IF t <= 0 THEN D2(p, a) > (r4 * r4) \div 16
      ELSE IF t >= Dot(dx, dy, dx, dy) THEN D2(p, b) > (r4 * r4) \div 16
      ELSE Abs(Cross(dx, dy, wx, wy)) > (r4 * LenUB(dx, dy)) \div 4

NearSeg(p, a, b, r4) == ~FarSeg(p, a, b, r4)

\* distance to the (infinite) line through a and b; a = b: distance to the point
FarLine(p, a, b, r4) ==
  IF a = b THEN D2(p, a) > (r4 * r4) \div 16
  ELSE Abs(Orient(a, b, p)) > (r4 * LenUB(b[1] - a[1], b[2] - a[2])) \div 4

\* every edge of the closed path (closing edge included) is far from p
FarClosedPath(p, path, r4) ==
  \A i \in 1..Len(path) : FarSeg(p, path[i], Nxt(path, i), r4)
\* every edge of the open path (no closing edge; a single point counts as a degenerate edge)
FarOpenPath(p, path, r4) ==
  IF Len(path) = 1 THEN FarSeg(p, path[1], path[1], r4)
  ELSE \A i \in 1..(Len(path) - 1) : FarSeg(p, path[i], path[i + 1], r4)
FarClosed(p, paths, r4) == \A k \in 1..Len(paths) : FarClosedPath(p, paths[k], r4)
FarOpen(p, paths, r4)   == \A k \in 1..Len(paths) : FarOpenPath(p, paths[k], r4)
NearOpen(p, paths, r4)  == ~FarOpen(p, paths, r4)

\* p lies on the closed segment ab (exact)
OnSeg(p, a, b) ==
  /\ Orient(a, b, p) = 0
  /\ Min2(a[1], b[1]) <= p[1] /\ p[1] <= Max2(a[1], b[1])
  /\ Min2(a[2], b[2]) <= p[2] /\ p[2] <= Max2(a[2], b[2])

OnClosedPath(p, path) == \E i \in 1..Len(path) : OnSeg(p, path[i], Nxt(path, i))

\* closed segments ab and cd have a common point (exact)
SegsMeet(a, b, c, d) ==
  LET o1 == Sgn(Orient(a, b, c))  o2 == Sgn(Orient(a, b, d))
      o3 == Sgn(Orient(c, d, a))  o4 == Sgn(Orient(c, d, b))
  IN  \/ (o1 * o2 < 0 /\ o3 * o4 < 0)
      \/ (o1 = 0 /\ OnSeg(c, a, b)) \/ (o2 = 0 /\ OnSeg(d, a, b))
      \/ (o3 = 0 /\ OnSeg(a, c, d)) \/ (o4 = 0 /\ OnSeg(b, c, d))

\* doubled signed area (shoelace, relative to the first vertex so terms stay small)
Area2(path) ==
  LET n == Len(path)
      o == path[1]
      f[i \in 1..n] == IF i = 1 THEN 0
                       ELSE f[i - 1] + Cross(path[i][1] - o[1], path[i][2] - o[2],
                                             Nxt(path, i)[1] - o[1], Nxt(path, i)[2] - o[2])
  IN  IF n < 3 THEN 0 ELSE f[n]

Area2Paths(paths) ==
  LET n == Len(paths)
      f[k \in 0..n] == IF k = 0 THEN 0 ELSE f[k - 1] + Area2(paths[k])
  IN  f[n]

\* sum over all closed edges of |dx| + |dy|  (an upper bound of the total edge length)
Perim1(path) ==
  LET n == Len(path)
      f[i \in 0..n] == IF i = 0 THEN 0
                       ELSE f[i - 1] + Abs(Nxt(path, i)[1] - path[i][1]) + Abs(Nxt(path, i)[2] - path[i][2])
  IN  IF n < 2 THEN 0 ELSE f[n]
Perim1Paths(paths) ==
  LET n == Len(paths)
      f[k \in 0..n] == IF k = 0 THEN 0 ELSE f[k - 1] + Perim1(paths[k])
  IN  f[n]

MinX(path) == LET f[i \in 1..Len(path)] == IF i = 1 THEN path[1][1] ELSE Min2(f[i - 1], path[i][1]) IN f[Len(path)]
MaxX(path) == LET f[i \in 1..Len(path)] == IF i = 1 THEN path[1][1] ELSE Max2(f[i - 1], path[i][1]) IN f[Len(path)]
MinY(path) == LET f[i \in 1..Len(path)] == IF i = 1 THEN path[1][2] ELSE Min2(f[i - 1], path[i][2]) IN f[Len(path)]
MaxY(path) == LET f[i \in 1..Len(path)] == IF i = 1 THEN path[1][2] ELSE Max2(f[i - 1], path[i][2]) IN f[Len(path)]

\* cyclic / plain sub-sequence tests used by TrimCollinear / SimplifyPath
IsSubSeqAt(sub, seq, idx) ==          \* idx: strictly increasing index sequence witnessing sub in seq
  /\ Len(idx) = Len(sub)
  /\ \A i \in 1..Len(idx) : idx[i] \in 1..Len(seq) /\ seq[idx[i]] = sub[i]
  /\ \A i \in 1..(Len(idx) - 1) : idx[i] < idx[i + 1]

Rotate(seq, k) == [i \in 1..Len(seq) |-> seq[((i + k - 1) % Len(seq)) + 1]]   \* start at element k+1
SameCyclic(s, t) == Len(s) = Len(t) /\ (Len(s) = 0 \/ \E k \in 0..(Len(s) - 1) : Rotate(s, k) = t)
=============================================================================
