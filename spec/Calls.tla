------------------------------- MODULE Calls -------------------------------
(***************************************************************************)
(* The degenerate call space of C03 and the outcome the library must give. *)
(* A call is a record                                                      *)
(*   [api, a, b, n1, n2, n3, n4, big]                                      *)
(* a, b: path sets (a[1] is "the path" of single-path entry points), n1..  *)
(* n4: small integer parameters whose meaning depends on the api, big:     *)
(* coordinates multiplied by 10^6.  CallSpace is finite; TLC enumerates it *)
(* (thorough tier: completely, and the trace specification then checks     *)
(* that the replayed calls are exactly this set), the harness performs     *)
(* every call on the real library under recover and a watchdog, and the    *)
(* recorded outcome must equal Outcome(call).                              *)
(***************************************************************************)
EXTENDS CallsBase, Integers, Sequences, FiniteSets, TLC, Json

P9 == {<<x, y>> : x \in 0..2, y \in 0..2}
P5 == {<<0, 0>>, <<2, 0>>, <<2, 2>>, <<0, 2>>, <<1, 1>>}

SeqsUpTo(S, n) == UNION {[1..k -> S] : k \in 0..n}

\* hand-picked longer degenerate shapes
Long == { << <<0,0>>, <<2,0>>, <<2,2>>, <<0,2>> >>,          \* square
          << <<0,0>>, <<0,2>>, <<2,2>>, <<2,0>> >>,          \* square, other orientation
          << <<0,0>>, <<2,2>>, <<2,0>>, <<0,2>> >>,          \* bow-tie
          << <<0,0>>, <<1,0>>, <<2,0>>, <<1,0>> >>,          \* all horizontal, doubling back
          << <<0,0>>, <<0,1>>, <<0,2>>, <<0,1>> >>,          \* all vertical
          << <<0,0>>, <<2,2>>, <<0,0>>, <<2,2>> >>,          \* spike repeated
          << <<1,1>>, <<1,1>>, <<1,1>>, <<1,1>> >>,          \* one point four times
          << <<0,0>>, <<2,0>>, <<2,2>>, <<0,2>>, <<0,0>> >>, \* closed explicitly
          << <<0,0>>, <<2,0>>, <<1,0>>, <<1,2>>, <<1,0>> >>, \* T with spikes
          << <<0,0>>, <<1,1>>, <<2,2>>, <<2,0>>, <<1,1>>, <<0,2>> >> }  \* touching triangles through a vertex

PathsA == SeqsUpTo(P9, 3) \cup Long          \* single-path entry points (830 paths)
PathsB == SeqsUpTo(P5, 3) \cup Long          \* operands of binary operations (166 paths)
Clips  == { <<>>,                                             \* empty set
            << <<>> >>,                                       \* one empty path
            << << <<0,0>>, <<2,0>>, <<1,2>> >> >>,
            << << <<0,0>>, <<2,0>>, <<2,2>>, <<0,2>> >> >>,
            << << <<0,0>>, <<2,2>>, <<2,0>>, <<0,2>> >> >>,
            << << <<0,1>>, <<1,1>>, <<2,1>> >>, << <<1,1>> >> >> }
Precs == {-9, -8, 0, 2, 8, 9}
Rects == {<<l, t, r, b>> : l \in {0, 1}, t \in {0, 1}, r \in {0, 1, 2}, b \in {0, 1, 2}}   \* includes empty and inverted
Deltas4 == {0, 1, -1, 2, -2, 4, -4, 12, -12, 2000000000, -2000000000}      \* quarter units (the last: 5 * 10^8)

C(api, a, b, n1, n2, n3, n4, big) == [api |-> api, a |-> a, b |-> b, n1 |-> n1, n2 |-> n2, n3 |-> n3, n4 |-> n4, big |-> big]

Tri1 == << << <<0,0>>, <<2,0>>, <<1,2>> >> >>
Tri2 == << << <<0,0>>, <<2,2>>, <<0,2>> >> >>
PrecApis == {"BooleanOpPathsD", "BooleanOpPolyTreeD", "NewClipperD", "InflatePathsD", "MinkowskiSumD", "MinkowskiDiffD",
             "RectClipPathsD", "RectClipLinesPathsD", "TrimCollinearD"}
MinkOperands == Long \cup SeqsUpTo(P5, 2)

(* IsCall(c): c is a member of the call space.  Written with bounded quantifiers so that TLC
   enumerates the space lazily (CInit == IsCall(call)) instead of building one huge set.
   Parameter meaning per api family:
     boolean ops   n1 clip type 0..5, n2 fill rule 0..4, n3 = 1: nil clip argument, n4 precision
     inflate       n1 delta in quarter units, n2 join type 0..4, n3 end type 0..5
     rect clip     b[1] = << <<left, top>>, <<right, bottom>> >>
     minkowski     a pattern, b path, n1 closed flag
     pure          n1 flag / epsilon in quarter units / x ; n2 closed / y                         *)
IsCall(c) ==
  \/ \E api \in {"BooleanOpPaths64", "Engine64"}, p \in PathsB, cl \in Clips, ct \in 0..5, fr \in 0..4 :
        c = C(api, <<p>>, cl, ct, fr, 0, 0, FALSE)
  \/ \E p \in PathsB, ct \in 0..5, fr \in 0..4, big \in BOOLEAN :
        c = C("BooleanOpPaths64", <<p>>, <<>>, ct, fr, 1, 0, big)
  \/ \E api \in {"BooleanOpPathsD", "BooleanOpPolyTree64", "BooleanOpPolyTreeD", "Engine64OC", "EngineDTree"},
         p \in Long, cl \in Clips, ct \in 0..5, fr \in 0..4 :
        c = C(api, <<p>>, cl, ct, fr, 0, 2, FALSE)
  \/ \E api \in PrecApis, pr \in Precs : c = C(api, Tri1, Tri2, 1, 1, 0, pr, FALSE)
  \/ \E p \in PathsB, d \in Deltas4, jt \in 0..4, et \in 0..5 : c = C("InflatePaths64", <<p>>, <<>>, d, jt, et, 0, FALSE)
  \/ \E api \in {"RectClipPaths64", "RectClipLinesPaths64", "RectClip64.Execute", "RectClipLines64.Execute"}, p \in PathsA, r \in Rects :
        c = C(api, <<p>>, << << <<r[1], r[2]>>, <<r[3], r[4]>> >> >>, 0, 0, 0, 0, FALSE)
  \/ \E api \in {"MinkowskiSum64", "MinkowskiDiff64"}, p \in MinkOperands, q \in MinkOperands, cl \in {0, 1} :
        c = C(api, <<p>>, <<q>>, cl, 0, 0, 0, FALSE)
  \/ \E api \in {"Area64", "IsPositive64", "GetBounds64", "StripDuplicates", "TrimCollinear64", "ReversePath",
                  "TranslatePath64", "ScalePath64", "Path64ToPathD"}, p \in PathsA, f \in {0, 1}, big \in BOOLEAN :
        c = C(api, <<p>>, <<>>, f, 0, 0, 0, big)
  \/ \E api \in {"SimplifyPath64", "SimplifyPathD"}, p \in PathsA, eps \in {0, 2, 4, 40}, cl \in {0, 1} :
        c = C(api, <<p>>, <<>>, eps, cl, 0, 0, FALSE)
  \/ \E p \in PathsA, x \in 0..2, y \in 0..2 : c = C("PointInPolygon", <<p>>, <<>>, x, y, 0, 0, FALSE)
  \/ \E rx \in {-4, 0, 2, 4, 400}, ry \in {-4, 0, 4}, st \in {-1, 0, 2, 3, 9} : c = C("Ellipse64", <<>>, <<>>, rx, ry, st, 0, FALSE)
  \* ---- the rest of the exported surface: floating-point variants, single-path wrappers, object APIs ----
  \/ \E p \in MinkOperands, d \in {0, 1, -1, 4, -4, 12, -12}, jt \in 0..4, et \in 0..5 :
        c = C("InflatePathsD.full", <<p>>, <<>>, d, jt, et, 2, FALSE)
  \* ClipperOffset object: n4 = flags (1 preserveCollinear, 2 reverseSolution, 4 constant delta through SetDeltaCallback,
  \* 8 two groups + Execute twice)
  \/ \E p \in MinkOperands, d \in {1, -1, 4, -4, 12}, jt \in 0..3, et \in 0..4, fl \in {0, 3, 4, 7, 8, 12} :
        c = C("ClipperOffset", <<p>>, <<>>, d, jt, et, fl, FALSE)
  \/ \E api \in {"RectClipPathsD.full", "RectClipLinesPathsD.full", "RectClipPathD", "RectClipLinesPathD", "RectClipPath64", "RectClipLinesPath64"},
         p \in PathsB, r \in Rects :
        c = C(api, <<p>>, << << <<r[1], r[2]>>, <<r[3], r[4]>> >> >>, 0, 0, 0, 2, FALSE)
  \/ \E api \in {"MinkowskiSumD.full", "MinkowskiDiffD.full"}, p \in MinkOperands, q \in MinkOperands, cl \in {0, 1} :
        c = C(api, <<p>>, <<q>>, cl, 0, 0, 2, FALSE)
  \* floating-point engine through ExecuteOC and through the AddPathsWithScaleFunc / ExecuteWithScaleFunc pair; PolyTree
  \* accessors (Count, Level, IsHole, ToString, Clear) on the result of a tree operation
  \/ \E api \in {"EngineDOC", "EngineDSF", "PolyTreeAPI64", "PolyTreeAPID"}, p \in Long, cl \in Clips, ct \in 0..5, fr \in 0..4 :
        c = C(api, <<p>>, cl, ct, fr, 0, 2, FALSE)
  \/ \E api \in {"AreaD", "TrimCollinearD.full", "SimplifyPathsD", "PathDHelpers"}, p \in PathsA, f \in {0, 1}, big \in BOOLEAN :
        c = C(api, <<p>>, <<>>, f, 0, 0, 2, big)
  \/ \E x \in {-1, 0, 2}, y \in {-1, 0, 2}, r \in Rects : c = C("PointRectMethods", <<>>, << << <<r[1], r[2]>>, <<r[3], r[4]>> >> >>, x, y, 0, 0, FALSE)

VARIABLE call
CInit == IsCall(call)
CNext == UNCHANGED call
EmitCall == PrintT(<<"HIST", ToJson(call)>>)
=============================================================================
