------------------------------- MODULE BigInt -------------------------------
(***************************************************************************)
(* Arbitrary-precision signed integers for TLC (whose native integers are  *)
(* 32 bit and raise an error on overflow).  A big integer is a record      *)
(* [s |-> sign, m |-> magnitude] with sign in {-1, 0, 1} and magnitude a   *)
(* little-endian sequence of limbs in base B = 10^4 without leading zero   *)
(* limbs (zero is [s |-> 0, m |-> <<>>]).  Limb products stay below 10^8,  *)
(* so no native operation here can overflow.  The harness writes 64-bit    *)
(* values in exactly this form (rec.go: big()).                            *)
(***************************************************************************)
EXTENDS Integers, Sequences

B == 10000

Zero == [s |-> 0, m |-> <<>>]

\* strip leading (most significant) zero limbs
Trim(m) ==
  LET n == Len(m)
      f[i \in 0..n] == IF i = 0 THEN 0 ELSE IF m[i] # 0 THEN i ELSE f[i - 1]   \* index of last non-zero limb
  IN  SubSeq(m, 1, f[n])

Norm(s, m) == LET t == Trim(m) IN IF Len(t) = 0 THEN Zero ELSE [s |-> s, m |-> t]

\* magnitude of a native non-negative integer
NatMag(x) == IF x = 0 THEN <<>>
             ELSE IF x < B THEN <<x>>
             ELSE IF x < B * B THEN <<x % B, x \div B>>
             ELSE <<x % B, (x \div B) % B, x \div (B * B)>>

FromInt(x) == IF x = 0 THEN Zero ELSE IF x > 0 THEN [s |-> 1, m |-> NatMag(x)] ELSE [s |-> -1, m |-> NatMag(-x)]

Limb(m, i) == IF i <= Len(m) THEN m[i] ELSE 0

\* compare magnitudes: -1, 0, 1
CmpMag(a, b) ==
  IF Len(a) # Len(b) THEN (IF Len(a) < Len(b) THEN -1 ELSE 1)
  ELSE LET n == Len(a)
           f[i \in 0..n] == IF i = 0 THEN 0
                            ELSE IF f[i - 1] # 0 THEN f[i - 1]     \* decided by a more significant limb
                            ELSE LET k == n + 1 - i IN
                                 IF a[k] < b[k] THEN -1 ELSE IF a[k] > b[k] THEN 1 ELSE 0
       IN  f[n]

AddMag(a, b) ==
  LET n == (IF Len(a) > Len(b) THEN Len(a) ELSE Len(b)) + 1
      c[i \in 0..n] == IF i = 0 THEN 0 ELSE (Limb(a, i) + Limb(b, i) + c[i - 1]) \div B    \* carry out of limb i
  IN  [i \in 1..n |-> (Limb(a, i) + Limb(b, i) + c[i - 1]) % B]

\* a - b for magnitudes with a >= b
SubMag(a, b) ==
  LET n == Len(a)
      br[i \in 0..n] == IF i = 0 THEN 0 ELSE IF Limb(a, i) - Limb(b, i) - br[i - 1] < 0 THEN 1 ELSE 0
  IN  [i \in 1..n |-> LET d == Limb(a, i) - Limb(b, i) - br[i - 1] IN IF d < 0 THEN d + B ELSE d]

Neg(a) == [s |-> -a.s, m |-> a.m]

Add(a, b) ==
  IF a.s = 0 THEN b ELSE IF b.s = 0 THEN a
  ELSE IF a.s = b.s THEN Norm(a.s, AddMag(a.m, b.m))
  ELSE LET c == CmpMag(a.m, b.m) IN
       IF c = 0 THEN Zero
       ELSE IF c > 0 THEN Norm(a.s, SubMag(a.m, b.m))
       ELSE Norm(b.s, SubMag(b.m, a.m))

Sub(a, b) == Add(a, Neg(b))

\* magnitude times one limb d (0 <= d < B), shifted by k limbs
MulLimb(a, d, k) ==
  LET n == Len(a) + 1
      c[i \in 0..n] == IF i = 0 THEN 0 ELSE (Limb(a, i) * d + c[i - 1]) \div B
  IN  [i \in 1..(n + k) |-> IF i <= k THEN 0 ELSE (Limb(a, i - k) * d + c[i - k - 1]) % B]

MulMag(a, b) ==
  LET n == Len(b)
      f[j \in 0..n] == IF j = 0 THEN <<>> ELSE Trim(AddMag(f[j - 1], MulLimb(a, b[j], j - 1)))
  IN  f[n]

Mul(a, b) == IF a.s = 0 \/ b.s = 0 THEN Zero ELSE Norm(a.s * b.s, MulMag(a.m, b.m))

Cmp(a, b) ==
  IF a.s # b.s THEN (IF a.s < b.s THEN -1 ELSE 1)
  ELSE IF a.s = 0 THEN 0
  ELSE a.s * CmpMag(a.m, b.m)

Sign(a) == a.s
AbsB(a) == [s |-> IF a.s = 0 THEN 0 ELSE 1, m |-> a.m]

\* back to a native integer (caller guarantees |a| < 2^31)
ToInt(a) ==
  LET n == Len(a.m)
      f[i \in 0..n] == IF i = 0 THEN 0 ELSE f[i - 1] * B + a.m[n + 1 - i]
  IN  a.s * f[n]

FitsInt(a) == Len(a.m) <= 2 \/ (Len(a.m) = 3 /\ a.m[3] <= 20)   \* < 21 * 10^8 < 2^31

WellFormed(a) ==
  /\ a.s \in {-1, 0, 1}
  /\ (a.s = 0) = (a.m = <<>>)
  /\ \A i \in 1..Len(a.m) : a.m[i] \in 0..(B - 1)
  /\ (Len(a.m) > 0 => a.m[Len(a.m)] # 0)
=============================================================================
