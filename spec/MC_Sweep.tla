------------------------------ MODULE MC_Sweep ------------------------------
(***************************************************************************)
(* The scan-beam theorem for the definitions of Sweep.tla, checked on all  *)
(* pairs (subject triangle, clip triangle) of a 3x3 lattice (scaled by 4), *)
(* all clip types and fill rules: order the edges spanning a beam by x at  *)
(* the probe's height; then the probe is in Region!Expected exactly when   *)
(* an odd number of contributing edges lies strictly to its left.          *)
(***************************************************************************)
EXTENDS Sweep, TLC

L == {0, 4, 8}
Pts == {<<x, y>> : x \in L, y \in L}
Tris == {<<a, b, c>> \in Pts \X Pts \X Pts : Orient(a, b, c) # 0}
\* clip triangles up to rotation of the start vertex (the theorem does not depend on it)
Less(p, q) == p[1] < q[1] \/ (p[1] = q[1] /\ p[2] < q[2])
CTris == {t \in Tris : Less(t[1], t[2]) /\ Less(t[1], t[3])}
Probes == {<<x, y>> : x \in {1, 3, 5, 7}, y \in {1, 3, 5, 7}}

\* subject triangles: canonical start vertex, both orientations; clip triangles: canonical start, one orientation
STris == {t \in Tris : Less(t[1], t[2]) /\ Less(t[1], t[3])}
ClipTris == {t \in STris : Orient(t[1], t[2], t[3]) > 0}

CONSTANT ClipStride        \* use every ClipStride-th clip triangle (1 = all of them)

VARIABLES s, c, ct, fr, phase
\* the subject is chosen in the initial state, everything else in the first step, so that TLC's workers share the work
Init == s \in STris /\ c = <<>> /\ ct = 0 /\ fr = 0 /\ phase = 0
Next == /\ phase = 0 /\ phase' = 1 /\ s' = s
        /\ c' \in {t \in ClipTris : ((t[1][1] + 3 * t[1][2] + 5 * t[2][1] + 7 * t[2][2] + 11 * t[3][1] + 13 * t[3][2]) \div 4) % ClipStride = 0}
        /\ ct' \in 1..4 /\ fr' \in 0..3

\* edges spanning the height of probe p (p.y is odd, so no vertex lies on it), sorted by x at that height
\* (the beam containing Y = p.y is the one starting at scan-line p.y + 1 in the half-unit convention:
\*  x is taken at y - 1/2 with y = p.y + 1... lattice Ys are multiples of 4, so any height inside works)
Spanning(p) == SelectSeq(InputEdges(<<s>>, <<c>>), LAMBDA e : e.bot[2] > p[2] /\ e.top[2] < p[2])
XAt(e, p) == <<e.bot[1] * (e.bot[2] - e.top[2]) + (e.top[1] - e.bot[1]) * (e.bot[2] - p[2]), e.bot[2] - e.top[2]>>   \* num, den > 0
LessAt(a, b, p) == XAt(a, p)[1] * XAt(b, p)[2] < XAt(b, p)[1] * XAt(a, p)[2]
SortedAt(p) ==
  LET sp == Spanning(p) n == Len(sp)
      rank(i) == Cardinality({j \in 1..n : LessAt(sp[j], sp[i], p) \/ (~LessAt(sp[i], sp[j], p) /\ j < i)})
  IN  [k \in 1..n |-> sp[CHOOSE i \in 1..n : rank(i) = k - 1]]

OnSomeEdge(p) == OnClosedPath(p, s) \/ OnClosedPath(p, c)

Theorem ==
  phase = 1 =>
  \A p \in Probes :
    OnSomeEdge(p) \/
    LET ael == SortedAt(p)
        left == {i \in 1..Len(ael) : XAt(ael[i], p)[1] < p[1] * XAt(ael[i], p)[2]}
        k == Cardinality({i \in left : Contributes(ct, fr, ael, i)})
    IN  (k % 2 = 1) = Expected(ct, fr, <<s>>, <<c>>, p)
=============================================================================
