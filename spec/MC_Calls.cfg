INIT CInit
NEXT CNext
INVARIANT EmitCall
CHECK_DEADLOCK FALSE
