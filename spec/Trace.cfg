INIT TInit
NEXT TNext
CHECK_DEADLOCK FALSE
