INIT Init
NEXT Next
INVARIANT WindingTheorems
INVARIANT FillTheorems
INVARIANT SetTheorems
CHECK_DEADLOCK FALSE
