"""Regenerates MANIFEST.json from the property table (python3 lib/manifest.py)."""
import json
import os
import subprocess
import sys

sys.path.insert(0, os.path.dirname(os.path.abspath(__file__)))
from props import PROPS  # noqa: E402

ROOT = os.path.dirname(os.path.dirname(os.path.abspath(__file__)))
ALL = ["C%02d" % i for i in range(1, 20)]


def hook_commits():
    try:
        out = subprocess.run(["git", "-C", "/repo", "log", "--format=%H %s"], capture_output=True, text=True).stdout
        return [l.split()[0] for l in out.splitlines() if l.split(" ", 1)[1].startswith("verif:")]
    except Exception:
        return []


def main():
    checks = []
    for pid in ALL:
        if pid not in PROPS:
            continue
        p = PROPS[pid]
        checks.append({
            "property_id": pid,
            "quick_cmd": "./check %s quick" % pid,
            "thorough_cmd": "./check %s thorough" % pid,
            "evidence_file": "evidence/%s.json" % pid,
            "replay_cmd_template": "./check %s --replay {path}" % pid,
            "engine": "tla-trace-validation",
            "level_claimed": {
                "category": "model_checking",
                "text": p.get("level_text", "bounded model checking of the TLA+ specification with TLC plus trace validation of recorded executions of the real code; " + p.get("rule", "")),
                "design_ref": p.get("design_ref", "DESIGN.md section 3 (%s)" % pid),
            },
            "level_note": p.get("level_note", "Trusted: TLC/SANY + Json module, the Go toolchain, the event recorder of the harness. "
                                "Bounded: exhaustive only inside the stated small scopes, seeded generation elsewhere."),
            "technique": p.get("technique", "TLA+ specification checked with TLC; traces of the real code validated against it"),
        })
    na = [{"property_id": pid, "reason": "check not built yet (work in progress); see DESIGN.md"}
          for pid in ALL if pid not in PROPS]
    m = {
        "version": 1,
        "setup_cmd": "./check --setup",
        "hooks": {
            "guard": "verif (Go build tag)",
            "enable": "go build -tags verif (the harness module replaces github.com/bolom009/go-clipper2 by /repo)",
            "baseline_off_cmd": "cd /repo && GOFLAGS=-mod=mod GOPROXY=off go test -vet=off -count=1 ./...",
            "source_commits": hook_commits(),
            "add_only": True,
        },
        "engines": [
            {"name": "tla-trace-validation", "path": "spec/", "serves_properties": [c["property_id"] for c in checks],
             "kind_free_text": "explicit TLA+ specification (spec/*.tla) model-checked with TLC on bounded configurations; "
                               "ndjson traces recorded from the real library (harness/, built with -tags verif from /repo's "
                               "working tree) are validated against the specification's actions, and TLC-generated behaviours "
                               "are replayed into the real code"},
        ],
        "checks": checks,
        "not_applicable": na,
        "notes": "See DESIGN.md. known_findings.json lists genuine defects that are recorded rather than repaired.",
    }
    with open(os.path.join(ROOT, "MANIFEST.json"), "w") as f:
        json.dump(m, f, indent=1)
    print("wrote MANIFEST.json with", len(checks), "checks;", len(na), "not applicable")


if __name__ == "__main__":
    main()
