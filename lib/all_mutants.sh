#!/bin/sh
# usage: all_mutants.sh [jobs] -- every seeded change against the quick tier of its property, in scratch worktrees
J=${1:-4}
cd /verif
ls seeded | xargs -P "$J" -I{} sh -c 'id={}; prop=$(echo $id | cut -c1-3); out=$(lib/try_mutant.sh seeded/$id/patch.diff $prop quick 2>&1); if echo "$out" | grep -q "^VIOLATION property=$prop"; then echo "$id detected"; else echo "$id MISSED: $(echo "$out" | tail -1)"; fi'
