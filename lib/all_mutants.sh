#!/bin/sh
# usage: all_mutants.sh [jobs] -- every seeded change against the quick tier of its property (meta.json
# "check_property" when the change lies outside the quantifier of the property it was written for), in scratch worktrees
J=${1:-4}
cd /verif
ls seeded | xargs -P "$J" -I{} sh -c 'id={}; prop=$(python3 -c "import json,sys; m=json.load(open(\"seeded/$id/meta.json\")); print(m.get(\"check_property\", \"$id\"[:3]))"); out=$(lib/try_mutant.sh seeded/$id/patch.diff $prop quick 2>&1); if echo "$out" | grep -q "^VIOLATION property=$prop"; then echo "$id detected ($prop)"; else echo "$id MISSED ($prop): $(echo "$out" | tail -1)"; fi'
