"""Shared machinery of ./check: build, drive, validate with TLC, triage, evidence."""
import concurrent.futures as cf
import hashlib
import json
import os
import re
import shutil
import subprocess
import sys
import tempfile
import time

ROOT = os.path.dirname(os.path.dirname(os.path.abspath(__file__)))
SPEC = os.path.join(ROOT, "spec")
HARNESS = os.path.join(ROOT, "harness")
REPO = os.environ.get("VERIF_REPO", "/repo")
# artefacts (evidence, replay files) of a run against a scratch copy of the repository (seeded-change trials)
# go to a scratch directory, so that /verif/evidence always describes /repo itself
OUT = ROOT if REPO == "/repo" else os.environ.get("VERIF_OUT", os.path.join("/tmp", "verif-out-" + os.path.basename(REPO)))
TLA_CP = "/opt/veriftools/tla/tla2tools.jar:/opt/veriftools/tla/CommunityModules-deps.jar"
NCPU = min(16, os.cpu_count() or 4)


class ToolError(Exception):
    pass


def log(*a):
    print(*a, flush=True)


class Ctx:
    def __init__(self, prop, tier, seed):
        self.prop, self.tier, self.seed = prop, tier, seed
        self.work = tempfile.mkdtemp(prefix="verif-%s-" % prop)
        self.harness = None
        self.t0 = time.time()
        self.states = 0
        self.transitions = 0
        self.traces = 0
        self.events = 0
        self.nontrivial = 0
        self.samples = []
        self.notes = []
        self.model_runs = []
        self.violations = []     # (what, replay path)
        self.known = []
        self.exhaustive = False

    def cleanup(self):
        shutil.rmtree(self.work, ignore_errors=True)


def go_env():
    env = dict(os.environ)
    env.update({"GOFLAGS": "-mod=mod", "GOPROXY": "off", "GOTOOLCHAIN": "local"})
    env.pop("GOSUMDB", None)
    return env


def build_harness(ctx, race=False):
    """Build the conformance harness against /repo's current working tree, hooks on."""
    out = os.path.join(ctx.work, "harness-race" if race else "harness")
    src = os.path.join(ctx.work, "hsrc")
    if not os.path.isdir(src):
        shutil.copytree(HARNESS, src)
        # bind to the repository under test
        gm = open(os.path.join(src, "go.mod")).read()
        gm = re.sub(r"=> /repo\b", "=> " + REPO, gm)
        open(os.path.join(src, "go.mod"), "w").write(gm)
        shutil.copy(os.path.join(REPO, "go.sum"), os.path.join(src, "go.sum"))
    cmd = ["go1.26", "build", "-tags", "verif"] + (["-race"] if race else []) + ["-o", out, "."]
    p = subprocess.run(cmd, cwd=src, env=go_env(), capture_output=True, text=True)
    if p.returncode != 0:
        env = dict(os.environ)
        env.update({"GOFLAGS": "-mod=mod", "GOPROXY": "off"})
        env.pop("GOSUMDB", None)
        env.pop("GOTOOLCHAIN", None)
        p2 = subprocess.run(["go"] + cmd[1:], cwd=src, env=env, capture_output=True, text=True)
        if p2.returncode != 0:
            raise ToolError("harness build failed:\n" + p.stderr + p2.stderr)
    if race:
        ctx.harness_race = out
    else:
        ctx.harness = out
    return out


def run_harness(ctx, args, timeout=3600, binary=None):
    if getattr(ctx, "race_mode", False) and args and args[0] == "replay-sched":
        return run_harness_race(ctx, args, timeout)
    p = subprocess.run([binary or ctx.harness] + args, capture_output=True, text=True, timeout=timeout)
    if p.returncode != 0:
        raise ToolError("harness %s failed (%d):\n%s\n%s" % (args, p.returncode, p.stdout[-2000:], p.stderr[-4000:]))
    return p.stdout


def run_harness_race(ctx, args, timeout=3600):
    """Run the -race build. A report of the race detector is direct evidence from the real code: the
    recorded SchedRun events are marked race=true so that the trace specification rejects them."""
    env = dict(os.environ)
    env["GORACE"] = "halt_on_error=0 exitcode=0"
    p = subprocess.run([ctx.harness_race] + args + getattr(ctx, "sched_args", []), capture_output=True, text=True,
                       timeout=timeout, env=env)
    if p.returncode != 0:
        raise ToolError("race harness %s failed (%d):\n%s\n%s" % (args, p.returncode, p.stdout[-2000:], p.stderr[-4000:]))
    if "DATA RACE" in p.stderr:
        out = args[args.index("-out") + 1]
        lines = open(out).read().splitlines()
        with open(out, "w") as f:
            for ln in lines:
                ev = json.loads(ln)
                if ev.get("ev") == "SchedRun":
                    ev["race"] = True
                f.write(json.dumps(ev) + "\n")
        rdir = os.path.join(OUT, "replays", ctx.prop)
        os.makedirs(rdir, exist_ok=True)
        with open(os.path.join(rdir, "race-report.txt"), "w") as f:
            f.write(p.stderr[:20000])
        ctx.notes.append("race detector report saved to replays/%s/race-report.txt" % ctx.prop)
    return p.stdout


SPEC_FILES = None


def spec_dir(ctx, name):
    """A private copy of the specification (TLC litters its working directory)."""
    d = os.path.join(ctx.work, name)
    os.makedirs(d, exist_ok=True)
    for f in os.listdir(SPEC):
        if f.endswith(".tla") or f.endswith(".cfg"):
            shutil.copy(os.path.join(SPEC, f), d)
    return d


def tlc(cwd, module, cfg=None, workers=1, timeout=1800, xmx="3g", extra=()):
    jtmp = os.path.join(cwd, "jtmp")      # TLC unpacks its standard modules into java.io.tmpdir on every run: keep
    os.makedirs(jtmp, exist_ok=True)      # that inside the scratch directory so that it is removed with it
    cmd = ["timeout", str(timeout), "java", "-Djava.io.tmpdir=" + jtmp, "-Xmx" + xmx, "-Xss64m",
           "-XX:+UseSerialGC" if workers == 1 else "-XX:+UseParallelGC", "-cp", TLA_CP, "tlc2.TLC", "-workers", str(workers), "-metadir", os.path.join(cwd, "md-" + module),
           "-config", cfg or (module + ".cfg")] + list(extra) + [module + ".tla"]
    p = subprocess.run(cmd, cwd=cwd, capture_output=True, text=True)
    return p.returncode, p.stdout + p.stderr


RE_DONE = re.compile(r'<<"TRACE_DONE", (\d+), (\d+)>>')
RE_FAIL = re.compile(r'<<"FAIL", "([^"]+)", (\d+)>>')
RE_FINDING = re.compile(r'<<"FINDING", "([^"]+)", (\d+)>>')
RE_STATES = re.compile(r"(\d+) states generated, (\d+) distinct states found")


def validate_trace(ctx, name, tracefile, module="Trace", timeout=3000):
    """Run the trace specification over one recorded trace. Returns a result dict."""
    d = spec_dir(ctx, name)
    shutil.copy(tracefile, os.path.join(d, "trace.ndjson"))
    n = sum(1 for _ in open(tracefile))
    if n == 0:
        return {"n": 0, "rejected": [], "fails": {}, "states": 0, "distinct": 0, "markers": {}}
    rc, out = tlc(d, module, timeout=timeout)
    m = RE_DONE.search(out)
    if not m or int(m.group(1)) != n:
        errs = [ln for ln in out.splitlines() if ln.startswith("Error:") or "Exception" in ln or "overflow" in ln.lower()][:6]
        raise ToolError("trace validation of %s did not complete (rc=%d):\n%s\n...\n%s" % (tracefile, rc, "\n".join(errs), out[-1500:]))
    fails = {}
    for c, i in RE_FAIL.findall(out):
        fails.setdefault(int(i), [])
        if c not in fails[int(i)]:
            fails[int(i)].append(c)
    markers = {}
    for c, i in RE_FINDING.findall(out):
        markers.setdefault(int(i), [])
        if c not in markers[int(i)]:
            markers[int(i)].append(c)
    if os.environ.get("VERIF_DETAIL"):
        for ln in out.splitlines():
            if ln.startswith('<<"DETAIL"'):
                log(ln)
    rejected = sorted(fails.keys())
    if len(rejected) != int(m.group(2)):
        raise ToolError("trace validation of %s: %s rejected events but %d FAIL indices" % (tracefile, m.group(2), len(rejected)))
    sm = RE_STATES.search(out)
    st, di = (int(sm.group(1)), int(sm.group(2))) if sm else (0, 0)
    shutil.rmtree(d, ignore_errors=True)
    return {"n": n, "rejected": rejected, "fails": fails, "states": st, "distinct": di, "markers": markers}


def run_model(ctx, module, cfg=None, workers=NCPU, timeout=1500, extra=(), expect_ok=True, xmx="8g"):
    """Model-check a bounded configuration of the specification."""
    d = spec_dir(ctx, "mc-" + module + (cfg or ""))
    rc, out = tlc(d, module, cfg=cfg, workers=workers, timeout=timeout, extra=extra, xmx=xmx)
    sm = RE_STATES.findall(out)
    st, di = (int(sm[-1][0]), int(sm[-1][1])) if sm else (0, 0)
    ok = "Model checking completed. No error has been found." in out or "Finished in" in out and "Error:" not in out
    if expect_ok and not ok:
        raise ToolError("model %s/%s failed (rc=%d):\n%s" % (module, cfg, rc, out[-4000:]))
    ctx.states += st
    ctx.transitions += st
    ctx.model_runs.append({"module": module, "cfg": cfg or module + ".cfg", "states_generated": st, "distinct": di})
    res = (d, out)
    return res


def event_key(ev):
    """Stable identity of a call: the event without results/probes."""
    drop = {"probes", "gexp", "hints", "nontriv", "sol", "sol2same", "argsSame", "out", "ok", "uni", "chk", "res", "res2same", "res2", "det", "a2", "a2int", "b", "pip", "removed", "vars", "i", "u", "d", "x", "d2", "us", "uc", "us2", "nverts", "flat", "tree", "solOpen", "onProbes", "solSwap", "hasSwap", "r64", "rd9", "t64", "td", "qa", "qb", "xa", "xb", "beams", "resSet", "kv", "solClosed", "resSet2", "idx", "counts", "mapOK"}
    core = {k: v for k, v in ev.items() if k not in drop and not k.startswith("r_")}
    return hashlib.sha1(json.dumps(core, sort_keys=True).encode()).hexdigest()[:16]


def load_known():
    p = os.path.join(ROOT, "known_findings.json")
    if not os.path.exists(p):
        return {"findings": [], "fixed": []}
    return json.load(open(p))


def match_known(prop, ev, clauses):
    """A listed finding matches by property and by the specific input (call key)."""
    k = event_key(ev)
    for f in load_known().get("findings", []):
        if f.get("property") == prop and f.get("key") == k:
            return f
    return None


def drive_and_validate(ctx, plan, module="Trace", enforce=None, advisory=False):
    """plan: list of dicts {driver, n, probes, chunks}. Drives the real code, validates every
    chunk with TLC in parallel, then triages rejected events."""
    jobs = []
    for item in plan:
        chunks = item.get("chunks", NCPU)
        per = max(1, item["n"] // chunks)
        for c in range(chunks):
            jobs.append((item, c, per))

    def one(job):
        item, c, per = job
        name = "%s-%d" % (item["driver"], c)
        tf = os.path.join(ctx.work, name + ".ndjson")
        seed = (ctx.seed * 7919 + c * 104729 + hash_str(item["driver"])) % (2 ** 31)
        args = ["drive", "-prop", item["driver"], "-seed", str(seed), "-n", str(per), "-out", tf,
                "-probes", str(item.get("probes", 48))] + item.get("args", [])
        run_harness(ctx, args)
        res = validate_trace(ctx, "tv-" + name, tf, module=item.get("module", module))
        res["file"] = tf
        res["driver"] = item["driver"]
        return res

    results = []
    with cf.ThreadPoolExecutor(max_workers=NCPU) as ex:
        for r in ex.map(one, jobs):
            results.append(r)
    rejected = []
    for r in results:
        ctx.states += r["states"]
        ctx.transitions += max(0, r["states"] - 1)
        ctx.traces += 1 if r["n"] else 0
        ctx.events += r["n"]
        lines = None
        with open(r["file"]) as f:
            lines = f.readlines()
        for ln in lines:
            if '"nontriv":true' in ln:
                ctx.nontrivial += 1
        if lines and len(ctx.samples) < 3:
            ctx.samples.append(trim_sample(json.loads(lines[0])))
        for idx in r["rejected"]:
            ev = json.loads(lines[idx - 1])
            rejected.append((ev, r["fails"].get(idx, ["?"]), r.get("module", module), r["driver"]))
    if advisory:
        # component-level checks (e.g. the scan-beam invariants) are necessary conditions of the design, not the
        # listed property itself: their rejections are recorded in the evidence, never reported as violations
        ctx.notes.append("advisory component check %s: %d of %d events rejected %s" % (
            [i["driver"] for i in plan], len(rejected), sum(r["n"] for r in results),
            sorted(set(c for _, cl, _, _ in rejected for c in cl))))
        return results
    triage(ctx, rejected, module)
    return results


def hash_str(s):
    return int(hashlib.sha1(s.encode()).hexdigest()[:8], 16)


def trim_sample(ev):
    out = {}
    for k, v in ev.items():
        s = json.dumps(v)
        out[k] = v if len(s) < 400 else (s[:400] + "...")
    return out


TOOL_CLAUSES = {"DRIFT", "UNKNOWN-EVENT", "GENERATOR"}


def reexec_batch(ctx, events, module, tag, cf=None):
    """Re-execute recorded calls on the current build (optionally under a counter-factual
    switch) and validate them in one TLC run. Returns per event (accepted, clauses)."""
    if not events:
        return []
    tmp = os.path.join(ctx.work, "replay-%s.in.ndjson" % tag)
    with open(tmp, "w") as f:
        for ev in events:
            f.write(json.dumps(ev) + "\n")
    out = os.path.join(ctx.work, "replay-%s.ndjson" % tag)
    args = ["reexec", "-in", tmp, "-out", out]
    if cf:
        args += ["-cf", cf]
    run_harness(ctx, args)
    res = validate_trace(ctx, "rp-" + tag, out, module=module)
    ctx.states += res["states"]
    if res["n"] != len(events):
        raise ToolError("reexec produced %d events for %d inputs" % (res["n"], len(events)))
    ctx.last_markers = [res["markers"].get(i + 1, []) for i in range(len(events))]
    return [((i + 1) not in res["fails"], res["fails"].get(i + 1, [])) for i in range(len(events))]


def triage(ctx, rejected, module):
    """Reproduce every rejected event against a fresh execution, then classify:
    listed finding (by specific input, or by call site via a counter-factual re-execution
    in which only the listed defect is switched off) or violation."""
    if not rejected:
        return
    rdir = os.path.join(OUT, "replays", ctx.prop)
    for ev, clauses, mod, driver in rejected:
        if any(c in TOOL_CLAUSES for c in clauses):
            raise ToolError("tool-level rejection %s on event %s" % (clauses, json.dumps(ev)[:600]))
    by_mod = {}
    for ev, clauses, mod, driver in rejected:
        by_mod.setdefault(mod, []).append(ev)
    known = load_known()
    for mod, evs in by_mod.items():
        rep = reexec_batch(ctx, evs, mod, "repro-" + mod)
        rep_markers = ctx.last_markers
        open_evs = []
        for ev, (ok, cl), mk in zip(evs, rep, rep_markers):
            if ok:
                raise ToolError("rejection of event %s did not reproduce" % event_key(ev))
            if any(c in TOOL_CLAUSES for c in cl):
                raise ToolError("tool-level rejection %s on replay of %s" % (cl, event_key(ev)))
            kf = match_known(ctx.prop, ev, cl)
            if not kf:
                # signature findings: the specification itself evaluated the finding's signature on the
                # reproduced event and printed its marker
                for f in known.get("findings", []):
                    if ctx.prop in f.get("properties", []) and f.get("marker") in mk and cl == [ctx.prop]:
                        kf = f
            if kf:
                note_known(ctx, kf)
            else:
                open_evs.append((ev, cl, mk))
        # call-site findings: the event must validate when exactly that site is switched off
        for f in known.get("findings", []):
            if not open_evs:
                break
            if ctx.prop not in f.get("properties", [f.get("property")]) or not f.get("counterfactual"):
                continue
            # a counter-factual finding may additionally require a signature marker of the specification on the
            # rejected event itself ("requires_marker"): the finding is then only a candidate for events with it
            cand = [(ev, cl, mk) for ev, cl, mk in open_evs if not f.get("requires_marker") or f["requires_marker"] in mk]
            rest = [(ev, cl, mk) for ev, cl, mk in open_evs if f.get("requires_marker") and f["requires_marker"] not in mk]
            if not cand:
                continue
            cfres = reexec_batch(ctx, [e for e, _, _ in cand], mod, "cf-%s-%s" % (f["id"], mod), cf=f["counterfactual"])
            still = []
            for (ev, cl, mk), (ok, _) in zip(cand, cfres):
                if ok:
                    note_known(ctx, f)
                else:
                    still.append((ev, cl, mk))
            open_evs = still + rest
        for ev, cl, _ in open_evs:
            os.makedirs(rdir, exist_ok=True)
            path = os.path.join(rdir, event_key(ev) + ".json")
            with open(path, "w") as fo:
                json.dump(ev, fo)
            ctx.violations.append((",".join(cl), path))
            log("VIOLATION property=%s replay=%s clause=%s" % (ctx.prop, path, ",".join(cl)))


def note_known(ctx, f):
    f.setdefault("_hits", 0)
    for k in ctx.known:
        if k.get("id") == f.get("id"):
            k["_hits"] = k.get("_hits", 0) + 1
            return
    f["_hits"] = 1
    ctx.known.append(f)
    log("KNOWN-FINDING: property=%s %s" % (ctx.prop, f.get("what", f.get("id"))))


def replay_event(ctx, ev, module="Trace"):
    """Re-execute one recorded call on the current build and validate it alone."""
    (ok, cl), = reexec_batch(ctx, [ev], module, "single-" + event_key(ev))
    return ok, cl


def generate_histories(ctx, module, cfg_text, workers=NCPU, timeout=1500, extra=()):
    """Model-check (or simulate) a bounded model that prints <<"HIST", json>> lines; returns the file
    with those lines. The TLC run itself also checks the model's invariants."""
    d = spec_dir(ctx, "gen-" + module)
    cfgname = "Gen_%s.cfg" % module
    with open(os.path.join(d, cfgname), "w") as f:
        f.write(cfg_text)
    rc, out = tlc(d, module, cfg=cfgname, workers=workers, timeout=timeout, extra=extra, xmx="8g")
    if "Error:" in out and "Deadlock" not in out:
        raise ToolError("model %s failed (rc=%d):\n%s" % (module, rc, out[-3000:]))
    sm = RE_STATES.findall(out)
    st, di = (int(sm[-1][0]), int(sm[-1][1])) if sm else (0, 0)
    ctx.states += st
    ctx.transitions += st
    ctx.model_runs.append({"module": module, "cfg": cfg_text.replace("\n", "; "), "states_generated": st, "distinct": di})
    hist = os.path.join(ctx.work, "hist-%s.txt" % module)
    lines = sorted(set(l for l in out.splitlines() if l.startswith('<<"HIST"')))
    with open(hist, "w") as f:
        f.write("\n".join(lines) + "\n")
    return hist, len(lines)


def replay_histories(ctx, histfile, subcmd, module="Trace", chunks=NCPU, limit=None, seed_shuffle=None, histories=None,
                     event_triage=False, extra_args=()):
    """Replay TLC-generated behaviours against the real code (harness <subcmd>), validate the
    recorded replays with the trace specification, triage rejections by re-running the history."""
    import random
    if histories is not None:
        lines = list(histories)
    else:
        lines = [l for l in open(histfile).read().splitlines() if l.strip()]
    if seed_shuffle is not None:
        random.Random(seed_shuffle).shuffle(lines)
    if limit:
        lines = lines[:limit]
    per = max(1, (len(lines) + chunks - 1) // chunks)
    jobs = [lines[i:i + per] for i in range(0, len(lines), per)]

    def one(k):
        hf = os.path.join(ctx.work, "h-%d.txt" % k)
        with open(hf, "w") as f:
            f.write("\n".join(jobs[k]) + "\n")
        tf = os.path.join(ctx.work, "h-%d.ndjson" % k)
        run_harness(ctx, [subcmd, "-in", hf, "-out", tf] + list(extra_args))
        res = validate_trace(ctx, "hv-%d" % k, tf, module=module)
        res["file"] = tf
        return res

    bad = []
    rejected_events = []
    with cf.ThreadPoolExecutor(max_workers=NCPU) as ex:
        for r in ex.map(one, range(len(jobs))):
            ctx.states += r["states"]
            ctx.transitions += max(0, r["states"] - 1)
            ctx.events += r["n"]
            evs = [json.loads(l) for l in open(r["file"])]
            ctx.traces += sum(1 for e in evs if e.get("ev") == "Reset")
            ctx.nontrivial += sum(1 for e in evs if e.get("nontriv") or e.get("ev") == "Call")
            if len(ctx.samples) < 2 and evs:
                ctx.samples.append({"history": evs[0].get("hist"), "events": [trim_sample(e) for e in evs[1:6]]})
            for idx in r["rejected"]:
                if event_triage:
                    # every history is one self-contained call: triage it like a driven event (re-execution,
                    # listed findings by key / signature / counter-factual)
                    rejected_events.append((evs[idx - 1], r["fails"].get(idx, ["?"]), module, subcmd))
                    continue
                j = idx - 1
                while j >= 0 and evs[j].get("ev") != "Reset":
                    j -= 1
                bad.append((evs[j].get("hist"), r["fails"].get(idx, ["?"])))
    if event_triage:
        triage(ctx, rejected_events, module)
        return len(lines)
    # triage: re-run each offending history alone
    seen = set()
    unreproduced = []
    nviol0 = len(ctx.violations)
    skipped = 0
    for hist, clauses in bad:
        if hist in seen:
            continue
        seen.add(hist)
        if len(ctx.violations) - nviol0 >= 10:
            # ten reproduced violations settle the verdict; the other rejected histories are counted, not re-run
            skipped += 1
            continue
        if any(c in TOOL_CLAUSES for c in clauses):
            raise ToolError("tool-level rejection %s in history %s" % (clauses, hist))
        ok, cl = replay_one_history(ctx, hist, subcmd, module)
        if ok:
            if getattr(ctx, "race_mode", False):
                # a race report cannot be attributed to one schedule of the chunk it occurred in: schedules
                # that do not reproduce it alone are skipped, but at least one must reproduce (checked below)
                unreproduced.append(hist)
                continue
            raise ToolError("rejection in history %s did not reproduce" % hist)
        kf = None
        for f in load_known().get("findings", []):
            if ctx.prop in f.get("properties", [f.get("property")]) and f.get("history") == hist:
                kf = f
        if kf:
            note_known(ctx, kf)
            continue
        rdir = os.path.join(OUT, "replays", ctx.prop)
        os.makedirs(rdir, exist_ok=True)
        path = os.path.join(rdir, hashlib.sha1(hist.encode()).hexdigest()[:16] + ".hist.json")
        with open(path, "w") as fo:
            json.dump({"history": hist, "subcmd": subcmd, "module": module, "rejected_events": getattr(ctx, "last_rejected", [])}, fo)
        ctx.violations.append((",".join(cl), path))
        log("VIOLATION property=%s replay=%s clause=%s" % (ctx.prop, path, ",".join(cl)))
    if skipped:
        ctx.notes.append("%d further rejected histories were not re-run individually (10 violations already reproduced)" % skipped)
    if unreproduced and len(ctx.violations) == nviol0 and not ctx.known:
        raise ToolError("none of the %d rejected schedules reproduced alone" % len(unreproduced))
    return len(lines)


def replay_one_history(ctx, hist, subcmd, module="Trace"):
    tag = hashlib.sha1(hist.encode()).hexdigest()[:12]
    hf = os.path.join(ctx.work, "one-%s.txt" % tag)
    with open(hf, "w") as f:
        f.write('<<"HIST", %s>>\n' % json.dumps(hist))
    tf = os.path.join(ctx.work, "one-%s.ndjson" % tag)
    run_harness(ctx, [subcmd, "-in", hf, "-out", tf])
    res = validate_trace(ctx, "one-" + tag, tf, module=module)
    cl = []
    for i in res["rejected"]:
        for c in res["fails"].get(i, ["?"]):
            if c not in cl:
                cl.append(c)
    # what the rejected events of this history recorded (kept in the replay file for the reader)
    ctx.last_rejected = []
    if res["rejected"]:
        evs = [json.loads(l) for l in open(tf)]
        for i in res["rejected"][:3]:
            ev = evs[i - 1]
            if "calls" in ev:
                ev = dict(ev, calls=[c for c in ev["calls"] if not c.get("same") or c.get("out") != "ok"][:20])
            ctx.last_rejected.append(ev)
    return (not res["rejected"]), cl


def write_evidence(ctx, level="model_checking", rule="", assumptions=()):
    ev = {
        "property_id": ctx.prop,
        "tier": ctx.tier,
        "seed": ctx.seed,
        "level": level,
        "coverage": {
            "states": max(1, ctx.states),
            "transitions": max(1, ctx.transitions),
            "traces_validated_against_impl": ctx.traces,
            "samples": ctx.samples or [{"note": "no events"}],
            "evaluations": max(1, ctx.events),
            "distinct_nontrivial": ctx.nontrivial,
            "rule": rule,
            "exhaustive": ctx.exhaustive,
            "model_runs": ctx.model_runs,
            "known_findings_hit": {k.get("id", k.get("key")): k.get("_hits", 1) for k in ctx.known},
            "notes": ctx.notes,
        },
        "assumptions": list(assumptions),
        "wall_s": round(time.time() - ctx.t0, 1),
        "violations": len(ctx.violations),
    }
    os.makedirs(os.path.join(OUT, "evidence"), exist_ok=True)
    with open(os.path.join(OUT, "evidence", ctx.prop + ".json"), "w") as f:
        json.dump(ev, f, indent=1)


def selftest():
    """Binding demonstration: corrupt recorded artefacts and require the specification to reject them."""
    ctx = Ctx("selftest", "quick", 1)
    results = []

    def gen(driver, n, name):
        tf = os.path.join(ctx.work, name + ".ndjson")
        run_harness(ctx, ["drive", "-prop", driver, "-seed", "7", "-n", str(n), "-out", tf, "-probes", "40"])
        return [json.loads(l) for l in open(tf)]

    def rejected(evs, name):
        tf = os.path.join(ctx.work, name + "-mut.ndjson")
        with open(tf, "w") as f:
            for e in evs:
                f.write(json.dumps(e) + "\n")
        r = validate_trace(ctx, "st-" + name, tf)
        return r["rejected"], r["fails"]

    def expect(name, evs, pred_idx, clause, frac=1.0):
        rej, fails = rejected(evs, name)
        hit = sum(1 for i in pred_idx if i in rej and clause in fails.get(i, []))
        ok = len(pred_idx) > 0 and hit >= frac * len(pred_idx)
        results.append((name, ok, "%d corrupted events, %d rejected with clause %s" % (
            len(pred_idx), sum(1 for i in pred_idx if i in rej and clause in fails.get(i, [])), clause)))

    try:
        build_harness(ctx)
        # 0. sanity: the uncorrupted traces are accepted (apart from listed findings)
        evs = gen("C01", 60, "c01")
        base_rej, _ = rejected(evs, "c01-base")
        # 1. drop one path of a logged solution
        mut, idx = [], []
        for i, e in enumerate(evs, 1):
            e = dict(e)
            if len(e["sol"]) >= 1 and e.get("nontriv") and i not in base_rej and len(idx) < 10:
                e["sol"] = e["sol"][1:]
                idx.append(i)
            mut.append(e)
        # (a removed path can be too small to contain one of the recorded probes: 80 % must be caught)
        expect("C01: first path of the logged solution removed", mut, idx, "C01", frac=0.8)
        # 2. argument mutation flag
        evs = gen("ARGS:C01", 20, "args")
        mut = [dict(e, argsSame=False) for e in evs]
        expect("C12: recorded 'arguments unchanged' flipped", mut, list(range(1, len(mut) + 1)), "ARGS")
        # 3. engine state binding: corrupt an EngAdd event, the later EngExec must be rejected
        hist = ['<<"HIST", %s>>' % json.dumps(json.dumps({"kind": "64", "ops": [
            {"op": "add", "p": 1, "ptype": 0, "open": False, "form": "", "ct": 0, "fr": 0},
            {"op": "add", "p": 2, "ptype": 1, "open": False, "form": "", "ct": 0, "fr": 0},
            {"op": "exec", "p": 0, "ptype": 0, "open": False, "form": "closed", "ct": 4, "fr": 1}]}))]
        hf = os.path.join(ctx.work, "st-hist.txt")
        open(hf, "w").write("\n".join(hist) + "\n")
        tf = os.path.join(ctx.work, "st-life.ndjson")
        run_harness(ctx, ["replay-life", "-in", hf, "-out", tf])
        evs = [json.loads(l) for l in open(tf)]
        mut, idx = [], []
        for i, e in enumerate(evs, 1):
            e = dict(e)
            if e["ev"] == "EngAdd" and e["ptype"] == 1:
                e["paths"] = [[[x + 40, y] for x, y in q] for q in e["paths"]]
            if e["ev"] == "EngExec":
                idx.append(i)
            mut.append(e)
        expect("C12: an AddPaths event altered (the specification's engine state no longer matches the real one)", mut, idx, "C12")
        # 4. SimplifyPath: hook removed (no removal order recorded) / bogus removal
        evs = gen("C16", 200, "c16")
        mut, idx = [], []
        for i, e in enumerate(evs, 1):
            e = dict(e)
            if len(e["removed"]) > 0 and len(idx) < 10:
                e["removed"] = []
                idx.append(i)
            mut.append(e)
        expect("C16: removal hook silenced (recorded removal order emptied)", mut, idx, "C16")
        # 5. TrimCollinear: a non-collinear vertex removed from the recorded result
        evs = gen("C15", 60, "c15")
        mut, idx = [], []
        for i, e in enumerate(evs, 1):
            e = dict(e)
            if not e["isOpen"] and len(e["res"]) >= 4 and len(idx) < 6:
                e["res"] = e["res"][1:]
                e["res2"] = e["res"]
                idx.append(i)
            mut.append(e)
        expect("C15: one vertex dropped from the recorded result", mut, idx, "C15")
        # 6. a precision panic logged as a normal return, and a normal return logged as a panic
        evs = gen("C07", 120, "c07")
        mut, idx = [], []
        for i, e in enumerate(evs, 1):
            e = dict(e)
            if e["out"] == "ok" and len(idx) < 8:
                e["out"] = "panic:precision is out of range"
                idx.append(i)
            mut.append(e)
        expect("C07: outcome replaced by the precision panic", mut, idx, "C07")
        # 7. sweep internals: one intersection node dropped / one ring's backward length altered
        evs = gen("SWEEP", 60, "sweep")
        base_rej, _ = rejected(evs, "sweep-base")
        mut, idx = [], []
        for i, e in enumerate(evs, 1):
            e = json.loads(json.dumps(e))
            bs = [b for b in e["beams"] if len(b["xs"]) > 0]
            if bs and i not in base_rej and len(idx) < 8:
                bs[0]["xs"] = bs[0]["xs"][1:]
                idx.append(i)
            mut.append(e)
        # (a removed swap of two edges that meet within the rounding slack at the top of the beam is not observable)
        expect("SWEEP: one processed intersection node removed from the record", mut, idx, "S6", frac=0.8)
        mut, idx = [], []
        for i, e in enumerate(evs, 1):
            e = json.loads(json.dumps(e))
            rs = [r for r in e["rings"] if r["hasPts"]]
            if rs and i not in base_rej and len(idx) < 8:
                rs[0]["nBack"] += 1
                idx.append(i)
            mut.append(e)
        expect("SWEEP: backward ring length of one output record altered", mut, idx, "R1")
        mut, idx = [], []
        for i, e in enumerate(evs, 1):
            e = json.loads(json.dumps(e))
            oe = [a for b in e["beams"] for a in b["ael"] if a["open"]]
            if oe and i not in base_rej and len(idx) < 8:
                for a in oe:
                    a["hot"] = not a["hot"]
                idx.append(i)
            mut.append(e)
        expect("SWEEP: contribution flag of the open edges flipped", mut, idx, "S4", frac=0.8)
        # 8. open paths: one piece of the open solution moved off its subject line
        evs = gen("C09", 80, "c09")
        base_rej, _ = rejected(evs, "c09-base")
        mut, idx = [], []
        for i, e in enumerate(evs, 1):
            e = json.loads(json.dumps(e))
            if e["solOpen"] and i not in base_rej and len(idx) < 8:
                e["solOpen"][0] = [[x + 40, y + 40] for x, y in e["solOpen"][0]]
                idx.append(i)
            mut.append(e)
        expect("C09: one open piece moved off its subject line", mut, idx, "C09", frac=0.8)
    except ToolError as e:
        log("TOOL-ERROR:", e)
        ctx.cleanup()
        return 2
    bad = 0
    for name, ok, what in results:
        log("%s  %s  (%s)" % ("REJECTED-AS-REQUIRED" if ok else "NOT-REJECTED", name, what))
        bad += 0 if ok else 1
    ctx.cleanup()
    return 0 if bad == 0 else 1


def main(argv):
    from props import PROPS  # property table
    if argv and argv[0] == "--setup":
        return setup()
    if argv and argv[0] == "selftest":
        return selftest()
    if len(argv) < 2:
        print(__doc__)
        return 2
    prop = argv[0]
    if prop not in PROPS:
        print("unknown property", prop)
        return 2
    seed = int(os.environ.get("VERIF_SEED", "1") or "1")
    if argv[1] == "--replay":
        ctx = Ctx(prop, "quick", seed)
        try:
            build_harness(ctx)
            ev = json.load(open(argv[2]))
            if getattr_race(PROPS[prop]):
                build_harness(ctx, race=True)
                ctx.race_mode = True
                ctx.sched_args = []
            ok, clauses = PROPS[prop].get("replay", default_replay)(ctx, ev)
            if ok:
                log("replay accepted: property holds on this event")
                return 0
            if "history" not in ev:
                # classify like a fresh rejection: listed findings print KNOWN-FINDING and exit 0
                triage(ctx, [(ev, clauses, "Trace", "replay")], "Trace")
                if not ctx.violations:
                    return 0
                return 1
            log("VIOLATION property=%s replay=%s clause=%s" % (prop, argv[2], ",".join(clauses)))
            return 1
        except ToolError as e:
            log("TOOL-ERROR:", e)
            return 2
        finally:
            ctx.cleanup()
    tier = argv[1]
    if tier not in ("quick", "thorough"):
        print("tier must be quick or thorough")
        return 2
    tier = os.environ.get("VERIF_TIER", tier) if os.environ.get("VERIF_TIER") in ("quick", "thorough") else tier
    ctx = Ctx(prop, tier, seed)
    try:
        build_harness(ctx)
        PROPS[prop]["run"](ctx)
        write_evidence(ctx, rule=PROPS[prop].get("rule", ""), assumptions=PROPS[prop].get("assumptions", ()))
        if ctx.violations:
            return 1
        log("OK property=%s tier=%s events=%d states=%d known=%d wall=%.0fs" % (
            prop, tier, ctx.events, ctx.states, len(ctx.known), time.time() - ctx.t0))
        return 0
    except ToolError as e:
        log("TOOL-ERROR:", e)
        if ctx.violations:
            # violations reproduced before a later stage broke down stand: the verdict comes from the real code
            ctx.notes.append("a later stage ended with a tool error: %s" % str(e)[:300])
            write_evidence(ctx, rule=PROPS[prop].get("rule", ""), assumptions=PROPS[prop].get("assumptions", ()))
            for cl, path in ctx.violations[:3]:
                log("VIOLATION property=%s replay=%s clause=%s" % (prop, path, cl))
            return 1
        return 2
    except subprocess.TimeoutExpired as e:
        log("TOOL-ERROR: timeout", e)
        return 2
    finally:
        ctx.cleanup()


def getattr_race(p):
    return p.get("race", False)


def default_replay(ctx, ev):
    if "history" in ev:
        return replay_one_history(ctx, ev["history"], ev.get("subcmd", "replay-life"), ev.get("module", "Trace"))
    return replay_event(ctx, ev, "Trace")


def setup():
    ctx = Ctx("setup", "quick", 1)
    try:
        build_harness(ctx)
        d = spec_dir(ctx, "sany")
        for m in ("Trace",):
            p = subprocess.run(["java", "-cp", TLA_CP, "tla2sany.SANY", m + ".tla"], cwd=d, capture_output=True, text=True)
            if p.returncode != 0 or "rror" in p.stdout.split("Linting")[0]:
                log(p.stdout[-2000:])
                return 2
        log("setup ok")
        return 0
    except ToolError as e:
        log("TOOL-ERROR:", e)
        return 2
    finally:
        ctx.cleanup()
