"""Property table: what each check runs in each tier."""
from vlib import drive_and_validate, run_model, generate_histories, replay_histories, build_harness, NCPU


def sz(ctx, quick, thorough):
    import os
    if os.environ.get("VERIF_N"):
        return int(os.environ["VERIF_N"])
    return quick if ctx.tier == "quick" else thorough


SMALL_CFG = "INIT SInit\nNEXT SNext\nINVARIANT EmitInput\nCHECK_DEADLOCK FALSE\n"


def small_scope(ctx, chk, quick_n, init="SInit"):
    """Exhaustive small scope (spec/SmallScope.tla): TLC enumerates every triangle x triangle operation and every
    quadrilateral self-union on the 3x3 lattice (init SInit), or every 2/3-point open line x clip triangle
    (SInitOpen); quick replays a seeded sample, thorough all of them."""
    hist, n = generate_histories(ctx, "SmallScope", SMALL_CFG.replace("SInit", init))
    if ctx.tier == "quick":
        done = replay_histories(ctx, hist, "replay-small", limit=quick_n, seed_shuffle=ctx.seed, event_triage=True,
                                extra_args=["-chk", chk])
        ctx.notes.append("small scope of %d operations enumerated by TLC; %d of them (seeded sample) replayed" % (n, done))
    else:
        done = replay_histories(ctx, hist, "replay-small", event_triage=True, extra_args=["-chk", chk])
        ctx.notes.append("small scope of %d operations enumerated by TLC and replayed completely (%d)" % (n, done))


def run_C01(ctx):
    drive_and_validate(ctx, [{"driver": "C01", "n": sz(ctx, 3200, 160000), "probes": 48}])
    small_scope(ctx, "C01", 8000)
    # component machine behind C01: the scan-beam theorem of Sweep.tla (model-checked) and the implementation's
    # active edge lists against S1..S5 (advisory: necessary conditions of the design, not the property itself)
    if ctx.tier == "quick":
        run_model(ctx, "MC_Sweep", workers=NCPU)
    else:
        run_model(ctx, "MC_Sweep", cfg="MC_Sweep_full.cfg", workers=NCPU)
    drive_and_validate(ctx, [{"driver": "SWEEP", "n": sz(ctx, 800, 40000)}], advisory=True)


def run_C02(ctx):
    drive_and_validate(ctx, [{"driver": "C02", "n": sz(ctx, 3200, 120000), "probes": 48}])
    small_scope(ctx, "C02,UNI", 8000)


def run_C06(ctx):
    drive_and_validate(ctx, [{"driver": "C06", "n": sz(ctx, 6400, 160000), "probes": 40}])


def run_C11(ctx):
    drive_and_validate(ctx, [{"driver": "C11", "n": sz(ctx, 3200, 160000), "probes": 40}])


def run_C14(ctx):
    run_model(ctx, "MC_BigInt", workers=4)
    run_model(ctx, "MC_GeometryB", workers=8)
    drive_and_validate(ctx, [{"driver": "C14", "n": sz(ctx, 4000, 200000)}])


def run_C15(ctx):
    drive_and_validate(ctx, [{"driver": "C15", "n": sz(ctx, 1600, 60000)}])


def run_C16(ctx):
    drive_and_validate(ctx, [{"driver": "C16", "n": sz(ctx, 1600, 60000)}])


def run_C19(ctx):
    if ctx.tier == "thorough":
        run_model(ctx, "MC_Lattice", workers=NCPU)
    drive_and_validate(ctx, [{"driver": "C19", "n": sz(ctx, 1600, 60000), "probes": 32},
                             {"driver": "C19L", "n": 32 if ctx.tier == "quick" else 640, "probes": 12}])


def run_C17(ctx):
    if ctx.tier == "thorough":
        run_model(ctx, "MC_Lattice", workers=NCPU)
    drive_and_validate(ctx, [{"driver": "C17", "n": sz(ctx, 1600, 60000), "probes": 32}])


def run_C12(ctx):
    maxlen = 4 if ctx.tier == "quick" else 5
    cfg = "INIT LInit\nNEXT LNext\nCONSTANT MaxLen = %d\nINVARIANT PathsFromHistory\nINVARIANT Emit\nCHECK_DEADLOCK FALSE\n" % maxlen
    hist, n = generate_histories(ctx, "Lifecycle", cfg)
    ctx.exhaustive = True
    ctx.notes.append("all %d histories of length <= %d over the Lifecycle alphabet replayed" % (n, maxlen))
    replay_histories(ctx, hist, "replay-life")
    # input immutability: every driver's workload with the ARGS clause enforced
    k = sz(ctx, 800, 20000)
    drive_and_validate(ctx, [{"driver": "ARGS:" + d, "n": k, "probes": 4} for d in
                             ("C01", "C06", "C11", "C14", "C15", "C16", "C19", "C05", "C10", "C08", "C04", "C09", "C02", "UTIL")])
    drive_and_validate(ctx, [{"driver": "ARGS:C07", "n": max(200, k // 2), "probes": 4}])


def run_C03(ctx):
    cfg = "INIT CInit\nNEXT CNext\nINVARIANT EmitCall\nCHECK_DEADLOCK FALSE\n"
    hist, n = generate_histories(ctx, "Calls", cfg)
    if ctx.tier == "quick":
        done = replay_histories(ctx, hist, "replay-calls", limit=40000, seed_shuffle=ctx.seed)
        ctx.notes.append("call space of %d calls enumerated by TLC; %d of them (seeded sample) replayed" % (n, done))
    else:
        done = replay_histories(ctx, hist, "replay-calls")
        ctx.exhaustive = (done == n and ctx.events == 2 * n)
        ctx.notes.append("call space of %d calls enumerated by TLC and replayed completely: %s" % (n, ctx.exhaustive))
    # the small API helpers against their functional specification (advisory: not a listed property; their
    # outcome (no panic) is part of C03 and is enforced)
    drive_and_validate(ctx, [{"driver": "OUT:UTIL", "n": sz(ctx, 1600, 40000)}])
    drive_and_validate(ctx, [{"driver": "UTIL", "n": sz(ctx, 1600, 40000)}], advisory=True)
    # every other driver's workload also counts: their events carry the outcome
    k = sz(ctx, 400, 10000)
    drive_and_validate(ctx, [{"driver": "OUT:" + d, "n": k, "probes": 2} for d in
                             ("C01", "C06", "C11", "C14", "C15", "C16", "C19", "C17", "C04", "C09", "C05", "C10", "C08", "C02")])
    drive_and_validate(ctx, [{"driver": "OUT:" + d, "n": max(100, k // 4), "probes": 2} for d in ("C07", "C13")])
    # the tree builder's rare paths (owners absorbed by horizontal joins) need more of the tiled-ring workload
    drive_and_validate(ctx, [{"driver": "OUT:C04", "n": sz(ctx, 6400, 60000), "probes": 2}])


def run_C04(ctx):
    drive_and_validate(ctx, [{"driver": "C04", "n": sz(ctx, 6400, 60000), "probes": 32}])


def run_C09(ctx):
    drive_and_validate(ctx, [{"driver": "C09", "n": sz(ctx, 1600, 60000), "probes": 40}])
    small_scope(ctx, "C09", 6000, init="SInitOpen")


def run_C05(ctx):
    drive_and_validate(ctx, [{"driver": "C05", "n": sz(ctx, 1600, 60000), "probes": 40}])


def run_C10(ctx):
    drive_and_validate(ctx, [{"driver": "C10", "n": sz(ctx, 1600, 60000), "probes": 40}])


def run_C08(ctx):
    drive_and_validate(ctx, [{"driver": "C08", "n": sz(ctx, 1600, 60000), "probes": 32}])


def run_C07(ctx):
    run_model(ctx, "MC_BigInt", workers=4)
    drive_and_validate(ctx, [{"driver": "C07", "n": sz(ctx, 2400, 50000)}])


def run_C13(ctx):
    run_model(ctx, "MC_BigInt", workers=4)
    run_model(ctx, "MC_GeometryB", workers=8)
    drive_and_validate(ctx, [{"driver": "C13", "n": sz(ctx, 1600, 60000), "probes": 24},
                             {"driver": "C13S", "n": sz(ctx, 800, 40000)}])


def run_C18(ctx):
    build_harness(ctx, race=True)
    ctx.race_mode = True
    quick = ctx.tier == "quick"
    # all interleavings of 2 calls x 4 segments and 3 x 2 (quick); thorough: 2 x 4, 3 x 3, 4 x 2 and 2 x 6
    total = 0
    for n, s in (((2, 4), (3, 2)) if quick else ((2, 4), (3, 3), (4, 2), (2, 6))):
        cfg = ("INIT SInit\nNEXT SNext\nCONSTANT N = %d\nCONSTANT S = %d\nINVARIANT PkgUntouched\n"
               "PROPERTY PkgNeverWritten\nINVARIANT EmitSched\nCHECK_DEADLOCK FALSE\n" % (n, s))
        hist, k = generate_histories(ctx, "Sched", cfg, workers=4)
        total += k
        ctx.sched_args = []
        replay_histories(ctx, hist, "replay-sched", chunks=4)
    ctx.exhaustive = True
    ctx.notes.append("%d schedules (every interleaving of the segment model) forced onto goroutines under -race" % total)
    # free-running stress under the race detector
    ctx.sched_args = []
    free = '{"free":%d,"rounds":%d}' % ((16, 40) if quick else (64, 400))
    replay_histories(ctx, None, "replay-sched", chunks=1, histories=['<<"HIST", %s>>' % __import__("json").dumps(free)])


def run_SWEEP(ctx):
    run_model(ctx, "MC_Sweep", workers=16)
    drive_and_validate(ctx, [{"driver": "SWEEP", "n": sz(ctx, 1600, 60000)}])


PROPS = {
    "C01": {"run": run_C01,
            "rule": "seeded generators (9 families) x 4 clip types x 4 fill rules x 4 entry points; an event is non-trivial "
                    "when its probes outside the band include both an expected-inside and an expected-outside point"},
    "C06": {"run": run_C06,
            "rule": "closed path sets of 9 families x rectangles biased through path vertices and along edges x 3 entry "
                    "points; non-trivial: probes off the bands contain a filled point inside and one outside the rectangle"},
    "C11": {"run": run_C11,
            "rule": "open polylines on the 8-grid (2..6 points, horizontal/vertical runs) x rectangles (free or on the grid) x 3 "
                    "entry points; probes are eighth points of the input segments; non-trivial: probes inside and outside"},
    "C14": {"run": run_C14,
            "rule": "Area64/AreaPaths64/IsPositive64/PointInPolygon/GetBounds64/isCollinear on operands with differences "
                    "0,+-1,+-2 and magnitudes around 2^26..2^29; non-trivial: >= 3 vertices / a real triple"},
    "C15": {"run": run_C15,
            "rule": "paths with collinear runs spanning index 0, spikes, duplicates, unit steps, 2^28 magnitudes; non-trivial: "
                    "some but not all vertices removed"},
    "C16": {"run": run_C16,
            "rule": "paths of 0..9 points at 5 magnitudes x 8 epsilons x closed/open x 4 entry points, each re-run translated "
                    "and scaled by a power of two; non-trivial: something removed and > 2 vertices left"},
    "C19": {"run": run_C19,
            "rule": "the four clip types + both differences + UnionPaths64 of each set on one input; small families as C01 and "
                    "large sets (120..520 polygons, thousands of vertices); non-trivial: intersection and difference non-empty"},
    "C17": {"run": run_C17,
            "rule": "base input + 5 re-spellings out of {path permutation, start rotation, closing vertex repeated, vertex "
                    "repeated, one path reversed (EvenOdd), all reversed (NonZero), all reversed with Positive<->Negative, "
                    "subject<->clip, 7 lattice symmetries}; non-trivial: base region has inside and outside probes"},
    "C12": {"run": run_C12,
            "rule": "every history (length <= 4 quick / 5 thorough) of 5 AddPaths and 5 Execute/ExecuteOC/ExecutePolyTree "
                    "operations on a clipper64, a clipperD and a ClipperOffset, enumerated by TLC from Lifecycle.tla and "
                    "replayed; non-trivial: executions preceded by an earlier execution on the same object; plus every "
                    "driver's calls with arguments compared before/after"},
    "C03": {"run": run_C03,
            "rule": "the finite degenerate call space of Calls.tla (paths of 0..3 points over {0,1,2}^2 plus 10 longer "
                    "degenerate shapes, empty/inverted rectangles, every enum value including one past the last, deltas "
                    "0, +-0.25 .. +-5e8, precisions -9..9, x10^6 magnitudes), enumerated by TLC; every call counts as "
                    "non-trivial (each is a distinct degenerate configuration)"},
    "C04": {"run": run_C04,
            "rule": "nested rings to depth 7, rectangles on a coarse grid (touching, splits, horizontal joins), combs and the "
                    "C01 families, through BooleanOpPolyTree64/D and ExecutePolyTree64/D; non-trivial: tree depth >= 2"},
    "C09": {"run": run_C09,
            "rule": "open polylines on the 8-grid (also starting on clip vertices) against closed clip/subject sets x "
                    "Intersection/Union/Difference x 4 fill rules through ExecuteOC (64, D) and the tree form; non-trivial: "
                    "on-line probes with both expected answers"},
    "C05": {"run": run_C05,
            "rule": "valid simple polygon sets (outer + holes + island, second polygon, both orientations; validity is "
                    "re-checked by the spec) x deltas +-0.25..+-40 x 4 join types x miter limits x arc tolerances x "
                    "InflatePaths64 / ClipperOffset with 1-2 groups; non-trivial: |delta| >= 0.5 and probes inside and outside"},
    "C10": {"run": run_C10,
            "rule": "open polylines of 1..6 points (duplicates, collinear runs) x 4 end types x 4 join types x deltas 0.5..15; "
                    "non-trivial: probes inside and outside the stroke"},
    "C08": {"run": run_C08,
            "rule": "patterns (convex, star-shaped non-convex, negatively oriented quads, arbitrary) x paths of 1..5 points "
                    "(collinear runs) x sum/difference x closed/open; closed sums also with operands exchanged; non-trivial: "
                    "probes off the parallelogram band with both answers"},
    "C07": {"run": run_C07,
            "rule": "9 floating-point entry points (boolean, tree, engine, inflate, Minkowski sum/diff, rect clip of polygons "
                    "and lines, trim) x precisions -8..8 (and out-of-range ones) x decimal inputs with 0..3 digits and "
                    "magnitudes up to 10^11; non-trivial: non-empty result"},
    "C13": {"run": run_C13,
            "rule": "boolean ops / RectClip / polygon offsetting / PointInPolygon / Area64 on a small base input and on the "
                    "same input translated anywhere within +-2^52 and scaled by factors up to MaxCoord/extent (2^61); "
                    "non-trivial: non-empty base result"},
    "C18": {"run": run_C18, "race": True,
            "rule": "every interleaving (enumerated by TLC from Sched.tla) of the segments of 2-3 concurrent long-running calls "
                    "(engine64 / engineD executions cut at scan-beams, ClipperOffset at paths, RectClip64 at paths) on shared "
                    "read-only inputs, forced through blocking gate hooks in a -race build, plus free-running stress of 16-64 "
                    "goroutines; every schedule is a distinct non-trivial case",
            "level_note": "The data-race clause is observed by the Go race detector (a report is direct evidence from the real "
                          "code); the specification contributes the schedules and the result oracle. Trusted: TLC, Go -race."},
    "UTIL": {"run": lambda ctx: drive_and_validate(ctx, [{"driver": "UTIL", "n": sz(ctx, 3200, 100000)}]), "internal": True,
             "rule": "component check, not a listed property: small API helpers against UtilOK"},
    "SWEEP": {"run": run_SWEEP, "internal": True,
              "rule": "component check, not a listed property: scan-beam snapshots of engine executions against Sweep.tla"},
    "C02": {"run": run_C02,
            "rule": "as C01 with preserve-collinear / reverse-solution toggled; non-trivial as C01"},
}
