"""Property table: what each check runs in each tier."""
from vlib import drive_and_validate, run_model, NCPU


def sz(ctx, quick, thorough):
    import os
    if os.environ.get("VERIF_N"):
        return int(os.environ["VERIF_N"])
    return quick if ctx.tier == "quick" else thorough


def run_C01(ctx):
    drive_and_validate(ctx, [{"driver": "C01", "n": sz(ctx, 3200, 160000), "probes": 48}])


def run_C02(ctx):
    drive_and_validate(ctx, [{"driver": "C02", "n": sz(ctx, 3200, 120000), "probes": 48}])


PROPS = {
    "C01": {"run": run_C01,
            "rule": "seeded generators (9 families) x 4 clip types x 4 fill rules x 4 entry points; an event is non-trivial "
                    "when its probes outside the band include both an expected-inside and an expected-outside point"},
    "C02": {"run": run_C02,
            "rule": "as C01 with preserve-collinear / reverse-solution toggled; non-trivial as C01"},
}
