#!/bin/sh
# usage: keep_mutant.sh <ID> -- confirm a seeded change in a scratch worktree of /repo's HEAD and keep it under /verif/seeded/<ID>/
ID=$1; SRC=/tmp/mut/$ID; WT=/tmp/wtc/$ID
export GOTOOLCHAIN=local GOFLAGS=-mod=mod GOPROXY=off
rm -rf $WT; mkdir -p /tmp/wtc; git -C /repo worktree add --detach $WT HEAD >/dev/null 2>&1 || exit 2
cd $WT
cp $SRC/demo_test.go . 
A=$(go1.26 test -count=1 -run "TestSeeded$ID\$" . 2>&1 | tail -1)
git apply $SRC/patch.diff || { echo "patch does not apply"; exit 2; }
B=$(go1.26 test -count=1 -run "TestSeeded$ID\$" . 2>&1 | tail -1)
rm demo_test.go
C=$(go1.26 test -count=1 ./... 2>&1 | tail -1)
echo "demo without patch: $A"; echo "demo with patch:    $B"; echo "suite with patch:   $C"
cd /; git -C /repo worktree remove --force $WT
mkdir -p /verif/seeded/$ID; cp $SRC/patch.diff $SRC/demo_test.go /verif/seeded/$ID/
cp $SRC/meta.json /verif/seeded/$ID/agent_meta.json 2>/dev/null
