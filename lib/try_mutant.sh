#!/bin/sh
# usage: try_mutant.sh <patch> <prop> [tier] -- applies a seeded change to /repo, runs the check, reverts
set -e
P=$1; ID=$2; TIER=${3:-quick}
cd /repo && git apply "$P"
cd /verif && (./check $ID $TIER 2>&1 | cut -c1-220 | tail -4; echo "rc=$?") || true
cd /repo && git checkout -- . 
git -C /repo status --short | head -3
