#!/bin/sh
# usage: try_mutant.sh <patch> <prop> [tier]
# Applies a seeded change to a scratch worktree of /repo's HEAD (never to /repo itself, so checks that
# run against /repo at the same time are not disturbed), runs the check against it (VERIF_REPO), removes it.
P=$(readlink -f "$1"); ID=$2; TIER=${3:-quick}
WT=/tmp/wtm/$$-$ID
mkdir -p /tmp/wtm
git -C /repo worktree add --detach "$WT" HEAD >/dev/null 2>&1 || { echo "cannot create worktree"; exit 2; }
git -C "$WT" apply "$P" || { echo "patch does not apply"; git -C /repo worktree remove --force "$WT"; exit 2; }
cd /verif && VERIF_REPO="$WT" VERIF_WORK_TAG="m$$" ./check $ID $TIER 2>&1 | cut -c1-220 | grep -v "^KNOWN-FINDING" | tail -3
git -C /repo worktree remove --force "$WT"; rm -rf /tmp/verif-out-$(basename "$WT")
git -C /repo worktree prune
